"""Boundary recorder: drive the real decoder and record everything observable at the API boundary.

Single-threaded program order is the happens-before order, so one list per decode is the trace.
Everything that the decoder may mutate later (constraint counters inside error objects) is copied at
observation time.
"""
import array
import collections
import os
import traceback

from . import env, layout

env.import_tpmstream()

from tpmstream.common.error import (  # noqa: E402
    AnticipatedSizeConstraintExceededError,
    ConstraintViolatedError,
    InputStreamBytesDepletedError,
    InputStreamSuperfluousBytesError,
    SizeConstraintExceededError,
    SizeConstraintSubceededError,
    ValueConstraintViolatedError,
)
from tpmstream.common.event import MarshalEvent, WarningEvent  # noqa: E402
from tpmstream.io.binary import Binary  # noqa: E402
import importlib  # noqa: E402

_unmarshal_mod = importlib.import_module("tpmstream.io.binary.unmarshal")


def to_bytes(event):
    # looked up at call time so that harness-side contracts on the module global are not bypassed
    return _unmarshal_mod.to_bytes(event)

from tpmstream.spec.commands import Command, CommandResponseStream, Response  # noqa: E402

DOCUMENTED = (ConstraintViolatedError, InputStreamBytesDepletedError, InputStreamSuperfluousBytesError)

_types_by_name = None


def type_by_name(name):
    global _types_by_name
    if _types_by_name is None:
        from tpmstream.spec.commands.params_common import TPM2B_ENCRYPTED_PARAM
        from tpmstream.spec.structures import structures_types

        _types_by_name = {t.__name__: t for t in structures_types}
        _types_by_name["TPM2B_ENCRYPTED_PARAM"] = TPM2B_ENCRYPTED_PARAM
        _types_by_name.update(Command=Command, Response=Response, CommandResponseStream=CommandResponseStream)
        for key, tbl in (("handles", Command), ("parameters", Command), ("handles", Response), ("parameters", Response)):
            for t in tbl._type_maps[key].values():
                _types_by_name.setdefault(t.__name__, t)
    return _types_by_name[name]


def cc_obj(cc):
    if cc is None:
        return None
    from tpmstream.spec.structures.constants import TPM_CC

    return TPM_CC(cc)


class CountingSource:
    """Byte iterable that logs every pull.  ``kind`` selects the concrete iterable handed to the decoder."""

    KINDS = ("counting", "bytes", "bytearray", "list", "tuple", "iter", "generator", "memoryview", "array", "deque", "files", "closing")

    def __init__(self, data, log=None):
        self.data = bytes(data)
        self.n = 0  # successful pulls
        self.stops = 0  # StopIteration signalled
        self.log = log

    def __iter__(self):
        return self

    def __next__(self):
        if self.n >= len(self.data):
            self.stops += 1
            if self.log is not None:
                self.log.append(("STOP", self.n))
            raise StopIteration
        v = self.data[self.n]
        self.n += 1
        if self.log is not None:
            self.log.append(("PULL", self.n - 1))
        return v


def make_source(data, kind):
    data = bytes(data)
    if kind == "bytes":
        return data
    if kind == "bytearray":
        return bytearray(data)
    if kind == "list":
        return list(data)
    if kind == "tuple":
        return tuple(data)
    if kind == "iter":
        return iter(data)
    if kind == "generator":
        return (b for b in data)
    if kind == "memoryview":
        return memoryview(data)
    if kind == "array":
        return array.array("B", data)
    if kind == "deque":
        return collections.deque(data)
    if kind == "files":
        # what the command line hands over: a generator over file objects
        import io

        from tpmstream.io import bytes_from_files

        class MemFile(io.BytesIO):
            mode = "rb"

        cut = len(data) // 2
        return bytes_from_files([MemFile(data[:cut]), MemFile(data[cut:])])
    if kind == "closing":
        return ClosingSource(data)
    raise ValueError(kind)


class ClosingSource:
    """Iterator with a close() method (like a generator or a file): after close() it yields nothing more."""

    def __init__(self, data):
        self.it = iter(bytes(data))
        self.closed = False

    def __iter__(self):
        return self

    def __next__(self):
        if self.closed:
            raise StopIteration
        return next(self.it)

    def close(self):
        self.closed = True


class Ev:
    __slots__ = ("kind", "path", "tname", "value", "vclass", "chunk", "raw", "err", "pulls", "type_id")

    def __repr__(self):
        if self.kind == "M":
            return f"<{pstr(self.path)} {self.tname} {'...' if self.value is None else self.value}>"
        return f"<W {self.err['cls']}: {self.err['str'][:80]}>"


def pstr(path):
    if path is None:
        return "None"
    return ".".join(n if i is None else f"{n}[{i}]" for n, i in path)


def rpath(path):
    if path is None:
        return None
    return tuple((n.name, n.index) for n in path)


def snap_error(err, materialize=True):
    """Copy what an error object says, now."""
    d = {"cls": type(err).__name__, "str": str(err)}
    c = getattr(err, "constraint", None)
    if c is not None:
        d["cpath"] = rpath(c.constraint_path)
        if hasattr(c, "size_max"):
            d["max"] = c.size_max
            d["already"] = c.size_already
        if hasattr(c, "tpm_type"):
            d["tname"] = layout.tname(c.tpm_type)
    if hasattr(err, "violator_path"):
        d["vpath"] = rpath(err.violator_path)
    if hasattr(err, "violator_value"):
        d["vvalue"] = int(err.violator_value)
    if hasattr(err, "exceeded_by"):
        d["by"] = err.exceeded_by
    if isinstance(err, ValueConstraintViolatedError):
        d["value"] = None if err.value is None else int(err.value)
    if hasattr(err, "command_code"):
        cc = err.command_code
        d["cc"] = None if cc is None else int(cc)
    if hasattr(err, "bytes_remaining"):
        br = err.bytes_remaining
        if br is None:
            d["rem"] = None
        elif materialize:
            try:
                br = bytes(br)
            except Exception as e:  # pragma: no cover
                br = f"<unreadable: {type(e).__name__}>"
            d["rem"] = br
        else:
            d["rem"] = "<unread>"
    return d


def mechanism(exc):
    """(exception class, innermost tpmstream frame 'file:function') of an escaping exception."""
    tb = traceback.extract_tb(exc.__traceback__)
    where = "?"
    for fr in tb:
        fn = fr.filename.replace(os.sep, "/")
        if "/tpmstream/" in fn:
            where = f"{fn.split('/tpmstream/')[-1]}:{fr.name}"
    return f"{type(exc).__name__}@{where}"


class Trace:
    def __init__(self):
        self.events = []
        self.outcome = None  # ("ok",) / ("depleted", cc) / ("superfluous", rest, cc) / ("constraint", errdict) / ("internal", mech, msg)
        self.exc = None
        self.obj = None
        self.pulls = 0
        self.stops = 0
        self.steps = 0
        self.capped = False
        self.data = b""
        self.unstable = None  # set when an error attribute changed between two reads

    @property
    def mevents(self):
        return [e for e in self.events if e.kind == "M"]

    @property
    def warnings(self):
        return [e for e in self.events if e.kind == "W"]

    def okind(self):
        o = self.outcome
        if o[0] == "constraint":
            return o[1]["cls"]
        return o[0]


def record_event(event, src=None):
    e = Ev()
    e.raw = event
    e.pulls = src.n if src is not None else None
    e.err = None
    if isinstance(event, MarshalEvent):
        e.kind = "M"
        e.path = rpath(event.path)
        e.tname = layout.tname(event.type)
        e.type_id = id(event.type)
        if event.value is ...:
            e.value = None
            e.vclass = None
        else:
            e.value = int(event.value)
            e.vclass = type(event.value).__name__
        try:
            e.chunk = to_bytes(event)
        except Exception as ex:  # recorded, judged by C02
            e.chunk = ex
    else:
        e.kind = "W"
        e.path = None
        e.tname = None
        e.value = None
        e.vclass = None
        e.type_id = None
        e.err = snap_error(event.error)
        try:
            e.chunk = to_bytes(event)
        except Exception as ex:
            e.chunk = ex
    return e


MUTATIONS = []  # events that no longer say what they said when they were emitted (reported by the worker)
_RECENT = []  # the last traces of this process, looked at again later


def recheck(t, when):
    """An emitted event is a value the caller holds: it must still say the same thing later."""
    for i, e in enumerate(t.events):
        if e.kind != "M":
            # a delivered warning is held by the caller, too: what it says (text, paths, excess, value) must not move on
            # with the decoder's bookkeeping (the live counters of its region are not part of what it *says*)
            try:
                late = snap_error(e.raw.error, materialize=False)
            except Exception as ex:
                late = {"cls": f"<unreadable: {type(ex).__name__}>"}
            keys = ("cls", "str", "cpath", "vpath", "vvalue", "by", "value", "tname")
            then = {k: e.err.get(k) for k in keys}
            now_ = {k: late.get(k) for k in keys}
            if getattr(t, "rooted", False):
                for k in ("cpath", "vpath"):
                    if now_.get(k) is not None:
                        now_[k] = _unroot(now_[k], [])
            if then != now_:
                if len(MUTATIONS) < 20:
                    diff = {k: (then[k], now_[k]) for k in keys if then[k] != now_[k]}
                    MUTATIONS.append(dict(when=when, index=i, emitted=("warning", e.err.get("cls"), str(diff)[:300]), now=("warning", late.get("cls"), ""),
                                          data=t.data.hex()[:400], tname=getattr(t, "tname", None), args=getattr(t, "args", None)))
                return False
            continue
        raw = e.raw
        try:
            now = (rpath(raw.path), layout.tname(raw.type), None if raw.value is ... else int(raw.value))
            if getattr(t, "rooted", False):
                now = (_unroot(now[0], []),) + now[1:]
        except Exception as ex:
            now = ("<unreadable>", type(ex).__name__, None)
        if now != (e.path, e.tname, e.value):
            if len(MUTATIONS) < 20:
                MUTATIONS.append(dict(when=when, index=i, emitted=(pstr(e.path), e.tname, e.value), now=(pstr(now[0]) if isinstance(now[0], tuple) else now[0], now[1], now[2]),
                                      data=t.data.hex()[:400], tname=getattr(t, "tname", None), args=getattr(t, "args", None)))
            return False
    return True


def _remember(t):
    recheck(t, "right after its decode ended")
    _RECENT.append(t)
    if len(_RECENT) > 24:
        old = _RECENT.pop(0)
        recheck(old, "24 decodes later in the same process")


def recheck_recent():
    for t in _RECENT:
        recheck(t, "at the end of the shard")
    del _RECENT[:]


def open_decode(tpm_type, data, strict=True, cc=None, enc=None):
    """The live decode generator itself (for lazy pipelines: printer(decoder(bytes)))."""
    if isinstance(tpm_type, str):
        tpm_type = type_by_name(tpm_type)
    kwargs = dict(tpm_type=tpm_type, buffer=bytes(data), abort_on_error=strict)
    if cc is not None:
        kwargs["command_code"] = cc_obj(cc) if isinstance(cc, int) else cc
    if enc is not None:
        kwargs["parameter_encryption"] = enc
    return Binary.marshal(**kwargs)


ROOT = (("log", None), ("msg", 2))  # an element of a list of messages: the last node carries an index


def _unroot(p, esc):
    """Path below the test root -> the path the same field has under the default root."""
    if not isinstance(p, tuple) or not p:
        return p
    if p[1 : 1 + len(ROOT)] == ROOT:
        return p[:1] + p[1 + len(ROOT) :]
    esc.append(p)
    return p


def run(*args, rooted=False, **kwargs):
    """rooted=True: the decode is given root_path='.log.msg[2]'; every recorded path (events, warnings, error) is then mapped
    back to the default root so that all comparisons stay as they are; a path that does not lie under the root it was
    given is kept and reported in ``t.root_escapes``."""
    if rooted:
        from tpmstream.common.path import Path

        mk = dict(kwargs.get("marshal_kwargs") or {})
        from tpmstream.common.path import PATH_NODE_ROOT_NAME, PathNode

        mk["root_path"] = Path([PathNode(PATH_NODE_ROOT_NAME)] + [PathNode(n, i) for n, i in ROOT])
        kwargs["marshal_kwargs"] = mk
    t = _run(*args, **kwargs)
    t.root_escapes = []
    if rooted:
        esc = t.root_escapes
        for e in t.events:
            if e.kind == "M":
                e.path = _unroot(e.path, esc)
            elif e.err:
                for k in ("cpath", "vpath"):
                    if e.err.get(k) is not None:
                        e.err[k] = _unroot(e.err[k], esc)
        if t.outcome and t.outcome[0] == "constraint":
            for k in ("cpath", "vpath"):
                if t.outcome[1].get(k) is not None:
                    t.outcome[1][k] = _unroot(t.outcome[1][k], esc)
        t.rooted = True
    try:
        t.tname = args[0] if isinstance(args[0], str) else getattr(args[0], "__name__", str(args[0]))
        t.args = dict(strict=kwargs.get("strict", True), cc=kwargs.get("cc"), enc=kwargs.get("enc"))
    except Exception:
        pass
    _remember(t)
    return t


def _run(tpm_type, data, strict=True, cc=None, enc=None, source_kind="counting", front=None, step_cap=None,
         marshal_kwargs=None, container=None):
    """Decode ``data`` with the real decoder and return the Trace.

    tpm_type: class or name.  ``front`` is the front-end class (default Binary); ``container`` (bytes) is
    what the front-end is fed when it differs from the carried bytes ``data``."""
    if isinstance(tpm_type, str):
        tpm_type = type_by_name(tpm_type)
    t = Trace()
    t.data = bytes(data)
    feed = t.data if container is None else bytes(container)
    if source_kind == "counting":
        src = CountingSource(feed)
        buf = src
    else:
        src = None
        buf = make_source(feed, source_kind)
    kwargs = dict(tpm_type=tpm_type, buffer=buf, abort_on_error=strict)
    if cc is not None:
        kwargs["command_code"] = cc_obj(cc) if isinstance(cc, int) else cc
    if enc is not None:
        kwargs["parameter_encryption"] = enc
    if marshal_kwargs:
        kwargs.update(marshal_kwargs)
    if step_cap is None:
        step_cap = 64 * (len(feed) + 16)
    fe = front or Binary
    try:
        gen = fe.marshal(**kwargs)
        while True:
            try:
                ev = next(gen)
            except StopIteration as stop:
                t.obj = stop.value
                t.outcome = ("ok",)
                break
            t.events.append(record_event(ev, src))
            t.steps += 1
            if t.steps > step_cap:
                t.capped = True
                t.outcome = ("capped",)
                gen.close()
                break
    except InputStreamBytesDepletedError as e:
        t.exc = e
        t.outcome = ("depleted", None if e.command_code is None else int(e.command_code))
    except InputStreamSuperfluousBytesError as e:
        t.exc = e
        # the error *carries* the surplus bytes: looking at it (formatting it, reading the attribute) must not use them up
        first = bytes(e.bytes_remaining)
        str(e)
        second = bytes(e.bytes_remaining)
        t.outcome = ("superfluous", second, None if e.command_code is None else int(e.command_code))
        if first != second:
            t.unstable = f"bytes_remaining was {first.hex()} on the first read and {second.hex()!r} after str(error)"
    except ConstraintViolatedError as e:
        t.exc = e
        t.outcome = ("constraint", snap_error(e))
    except Exception as e:  # internal error: judged by C06 / C08
        t.exc = e
        t.outcome = ("internal", mechanism(e), str(e)[:200])
    if src is not None:
        t.pulls, t.stops = src.n, src.stops
    return t


def events_of(gen):
    """Drain any event generator into recorded events (no source accounting)."""
    return [record_event(e) for e in gen]
