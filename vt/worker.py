"""Worker process: run one shard of one monitor and write its observations as JSON."""
import faulthandler
import importlib
import json
import sys
import time
import traceback

from . import env


def main():
    prop, shard_file, out_file = sys.argv[1:4]
    with open(shard_file) as f:
        shard = json.load(f)
    faulthandler.enable()
    # the driver kills a shard at its limit; should the driver itself be gone by then (killed from outside), the worker
    # must not run on as an orphan: it ends itself a little after that limit
    wd = shard.get("watchdog_s") or (shard.get("timeout_s") or (900 if shard.get("tier", "quick") == "quick" else 5400)) + 180
    faulthandler.dump_traceback_later(wd, exit=True)
    env.import_tpmstream()
    from .rec import Rec

    mod = importlib.import_module(f"vt.monitors.{prop.lower()}")
    rec = Rec(prop, shard)
    t0 = time.time()
    try:
        mod.run_shard(shard, rec)
        status = "done"
        err = None
        from . import trace as TR

        TR.recheck_recent()
        rec.count("traces_rechecked_later", 0)
        if prop in ("C01", "C02", "C07", "C08", "C09", "C11", "C12"):
            for mu in TR.MUTATIONS:
                rec.violation("event-changed-after-emission", "held-event",
                              f"event #{mu['index']} of the decode of {mu['tname']} {mu['data'][:120]} ({mu['args']}) was emitted as {mu['emitted']} and reads {mu['now']} {mu['when']}",
                              dict(kind="held-event", **mu))
    except Exception:
        status = "harness-error"
        err = traceback.format_exc()
    out = rec.to_json()
    out["status"] = status
    out["error"] = err
    out["wall_s"] = time.time() - t0
    with open(out_file, "w") as f:
        json.dump(out, f, default=repr)
    return 0


if __name__ == "__main__":
    sys.exit(main())
