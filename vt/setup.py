"""MANIFEST.setup_cmd: install the optional contract library next to the checks, offline.

The deciding monitors do not depend on it; when the install is impossible the contract layer is
skipped and the evidence says so.
"""
import os
import subprocess
import sys

from . import env


def main():
    os.makedirs(env.DEPS, exist_ok=True)
    if os.path.isdir(os.path.join(env.DEPS, "icontract")):
        print("setup: icontract already present")
        return 0
    cmd = [
        sys.executable, "-m", "pip", "install", "--quiet", "--no-index",
        "--find-links", "/opt/veriftools/wheels", "--target", env.DEPS, "icontract",
    ]
    r = subprocess.run(cmd, capture_output=True, text=True)
    if r.returncode != 0:
        print("setup: icontract not installed (contract layer will be skipped):", r.stderr[-300:])
    else:
        print("setup: icontract installed into", env.DEPS)
    return 0


if __name__ == "__main__":
    sys.exit(main())
