"""Per-shard recorder: what a monitor observed (counts, distinct case signatures, samples, violations)."""
import hashlib
import json


def sig_hash(sig):
    return hashlib.blake2b(repr(sig).encode(), digest_size=7).hexdigest()


class Rec:
    MAX_VIOL = 40

    def __init__(self, prop, shard):
        self.prop = prop
        self.shard = shard
        self.evaluations = 0
        self.sigs = set()
        self.counters = {}
        self.sets = {}
        self.samples = {}
        self.violations = []
        self.viol_total = 0
        self.viol_by_mech = {}
        self.inconclusive = []

    # ---- observations ----------------------------------------------------------------------
    def case(self, sig=None, nontrivial=True, n=1):
        self.evaluations += n
        if sig is not None and nontrivial:
            self.sigs.add(sig_hash(sig))

    def count(self, name, n=1):
        self.counters[name] = self.counters.get(name, 0) + n

    def add(self, setname, item):
        self.sets.setdefault(setname, set()).add(item if isinstance(item, str) else json.dumps(item, sort_keys=True, default=str))

    def sample(self, obj, bucket="samples", cap=4):
        b = self.samples.setdefault(bucket, [])
        if len(b) < cap:
            b.append(obj)

    def violation(self, rule, mechanism, message, replay):
        """rule: the monitor rule that fired; mechanism: stable key of *how* it fails (never an input hash)."""
        self.viol_total += 1
        key = f"{rule}|{mechanism}"
        self.viol_by_mech[key] = self.viol_by_mech.get(key, 0) + 1
        if self.viol_by_mech[key] <= 3 and len(self.violations) < self.MAX_VIOL:
            import os

            self.violations.append(dict(rule=rule, mechanism=mechanism, message=str(message)[:1500], replay=replay, hashseed=os.environ.get("PYTHONHASHSEED")))

    def inconclusive_because(self, why):
        self.inconclusive.append(why)

    # ---- transport -------------------------------------------------------------------------
    def to_json(self):
        return dict(
            prop=self.prop,
            shard=self.shard.get("name"),
            evaluations=self.evaluations,
            sigs=sorted(self.sigs),
            counters=self.counters,
            sets={k: sorted(v) for k, v in self.sets.items()},
            samples=self.samples,
            violations=self.violations,
            viol_total=self.viol_total,
            viol_by_mech=self.viol_by_mech,
            inconclusive=self.inconclusive,
        )
