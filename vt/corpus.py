"""The captured corpus shipped with the tree under test (123 pcapng files, ~5600 packets)."""
import glob
import os

from . import env

_cache = None


def data_dir():
    return os.path.join(env.SRC, "tpmstream", "data")


def files():
    return sorted(glob.glob(os.path.join(data_dir(), "*.pcap")))


def packets():
    """[(file basename, index in file, bytes)] in file order; commands and responses alternate."""
    global _cache
    if _cache is None:
        import dpkt

        out = []
        for f in files():
            with open(f, "rb") as fh:
                for i, (_ts, buf) in enumerate(dpkt.pcapng.Reader(fh)):
                    out.append((os.path.basename(f), i, bytes(dpkt.ip.IP(buf).data.data)))
        _cache = out
    return _cache


def pairs():
    """[(file, command bytes, response bytes)]"""
    out = []
    pk = packets()
    i = 0
    while i + 1 < len(pk):
        if pk[i][0] == pk[i + 1][0]:
            out.append((pk[i][0], pk[i][2], pk[i + 1][2]))
            i += 2
        else:
            i += 1
    return out


def streams():
    """{file: concatenated bytes of all its packets}"""
    out = {}
    for f, _i, b in packets():
        out.setdefault(f, bytearray()).extend(b)
    return {k: bytes(v) for k, v in out.items()}
