"""pytest plugin (``-p vt.repo_tests_plugin``): the repository's own tests run with boundary monitors around every decode
they make.  Nothing in the tests is changed; ``tpmstream.io.binary.marshal`` (what ``Binary.marshal`` and every front-end
call) is wrapped by a generator that tees the bytes pulled from the source and watches the events:

* look-ahead law (C10): while no problem has been reported, at every event at most one byte beyond the bytes of the
  emitted fields has been pulled;
* round-trip law (C02): a decode that completes without any warning re-encodes, event by event, to exactly the bytes
  that were pulled;
* held events (C01/C12): when the decode ends, every emitted event still says what it said when it was emitted.

Observations go to ``$VT_REPO_TESTS_OUT.<pid>`` (one JSON document per pytest process) and are judged by the check that
started pytest (C02, thorough tier).  A monitor never raises into the test."""
import json
import os

COUNTS = {"decodes": 0, "completed_clean": 0, "completed_with_warnings": 0, "raised": 0, "abandoned": 0, "events": 0, "lookahead_checked": 0}
VIOLATIONS = []
_installed = False


def _violation(rule, msg, pulled, kw):
    if len(VIOLATIONS) < 50:
        VIOLATIONS.append(dict(rule=rule, message=msg, pulled=bytes(pulled).hex()[:600], tpm_type=getattr(kw.get("tpm_type"), "__name__", str(kw.get("tpm_type"))),
                               strict=kw.get("abort_on_error", True), command_code=str(kw.get("command_code")), test=os.environ.get("PYTEST_CURRENT_TEST", "")))


def install():
    global _installed
    if _installed:
        return
    _installed = True
    import importlib

    import tpmstream.io.binary as pkg
    from tpmstream.common.event import MarshalEvent

    to_bytes = importlib.import_module("tpmstream.io.binary.unmarshal").to_bytes
    orig = pkg.marshal

    def monitored(*args, **kw):
        if args or "buffer" not in kw:
            return (yield from orig(*args, **kw))
        COUNTS["decodes"] += 1
        pulled = bytearray()
        src = iter(kw["buffer"])

        def tee():
            for b in src:
                pulled.append(b)
                yield b

        kw2 = dict(kw, buffer=tee())
        gen = orig(**kw2)
        chunks = []
        held = []
        clean = True
        consumed = 0
        finished = False
        try:
            while True:
                try:
                    ev = next(gen)
                except StopIteration as stop:
                    finished = True
                    result = stop.value
                    break
                except BaseException:
                    COUNTS["raised"] += 1
                    finished = True
                    raise
                COUNTS["events"] += 1
                try:
                    if isinstance(ev, MarshalEvent):
                        if ev.value is not ...:
                            c = to_bytes(ev)
                            chunks.append(c)
                            consumed += len(c)
                            held.append((ev, str(ev.path), int(ev.value)))
                        if clean:
                            COUNTS["lookahead_checked"] += 1
                            d = len(pulled) - consumed
                            if d not in (0, 1):
                                _violation("look-ahead", f"at {ev.path}: {len(pulled)} bytes pulled, {consumed} bytes of fields emitted", pulled, kw)
                                clean = False
                    else:
                        clean = False
                except Exception as e:  # a monitor problem is recorded, never raised into the test
                    _violation("monitor-error", f"{type(e).__name__}: {e}", pulled, kw)
                    clean = False
                yield ev
        finally:
            if not finished:
                COUNTS["abandoned"] += 1
        try:
            if clean:
                COUNTS["completed_clean"] += 1
                if b"".join(chunks) != bytes(pulled):
                    _violation("round-trip", f"the decode completed without a warning; its events re-encode to {b''.join(chunks).hex()[:200]}, pulled were {bytes(pulled).hex()[:200]}", pulled, kw)
            else:
                COUNTS["completed_with_warnings"] += 1
            for ev, p, v in held:
                if str(ev.path) != p or int(ev.value) != v:
                    _violation("held-event", f"event emitted as {p} = {v} reads {ev.path} = {int(ev.value)} when the decode ends", pulled, kw)
                    break
        except Exception as e:
            _violation("monitor-error", f"{type(e).__name__}: {e}", pulled, kw)
        return result

    pkg.marshal = monitored
    # modules that bound the function by name before the plugin was installed
    import sys

    for name, mod in list(sys.modules.items()):
        if name.startswith("tpmstream.") and mod is not None and getattr(mod, "marshal", None) is orig and name != "tpmstream.io.binary.marshal":
            try:
                setattr(mod, "marshal", monitored)
            except Exception:
                pass


def pytest_configure(config):
    install()


def pytest_sessionfinish(session, exitstatus):
    out = os.environ.get("VT_REPO_TESTS_OUT")
    if out:
        with open(f"{out}.{os.getpid()}", "w") as f:
            json.dump(dict(counts=COUNTS, violations=VIOLATIONS), f)
