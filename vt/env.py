"""Environment set-up shared by every check.

* makes sure ``tpmstream`` is imported from the tree under test (``TPMSTREAM_SRC``, default
  ``/repo/src``) and asserts it after import, so a stale install can never be checked by accident;
* gives access to the optional contract libraries installed by ``vt.setup`` into ``/verif/.deps``.
"""
import os
import sys

VERIF_ROOT = os.path.dirname(os.path.dirname(os.path.abspath(__file__)))
SRC = os.path.abspath(os.environ.get("TPMSTREAM_SRC", "/repo/src"))
REPO_ROOT = os.path.dirname(SRC)
DEPS = os.path.join(VERIF_ROOT, ".deps")
PYTHON = sys.executable


def setup_paths():
    # tree under test first
    if sys.path[0:1] != [SRC]:
        if SRC in sys.path:
            sys.path.remove(SRC)
        sys.path.insert(0, SRC)
    if os.path.isdir(DEPS) and DEPS not in sys.path:
        sys.path.append(DEPS)


def import_tpmstream():
    setup_paths()
    import tpmstream

    got = os.path.dirname(os.path.abspath(tpmstream.__file__))
    want = os.path.join(SRC, "tpmstream")
    if os.path.realpath(got) != os.path.realpath(want):
        raise RuntimeError(f"tpmstream imported from {got}, expected {want}")
    return tpmstream


def child_env(extra=None):
    env = dict(os.environ)
    env["PYTHONHASHSEED"] = "0"
    env["TPMSTREAM_SRC"] = SRC
    env["PYTHONPATH"] = os.pathsep.join(
        [SRC, VERIF_ROOT] + ([env["PYTHONPATH"]] if env.get("PYTHONPATH") else [])
    )
    env["PYTHONDONTWRITEBYTECODE"] = "1"
    if extra:
        env.update(extra)
    return env


def seed_default():
    try:
        return int(os.environ.get("VERIF_SEED", "0"))
    except ValueError:
        return 0
