"""Executable reference model: an independent interpreter of TPM 2.0 wire layout.

It knows nothing about the code under test.  Its only layout knowledge is the *pinned* snapshot
(``layout/pinned_layout.json``); the framing rules of commands / responses / streams and the region
(size-field) semantics are written here from the property statements.

``decode(...)`` returns a ``Ref`` object with
  events    expected MarshalEvent stream: RefEvent(path, tname, value|None, span)
  outcome   ("ok",) or the first problem in wire order (see ``Problem``)
  regions   every sized region that was opened: Region(path, start, max, kind)
  bad       (lenient mode) value problems in wire order
  messages  (streams) Message(kind, start, end, cc, enc) for every message started
"""
from . import layout

CC_SESSIONS = 0x8002
ATTR_DECRYPT = 0x20
ATTR_ENCRYPT = 0x40


class Problem(Exception):
    """First problem found by the reference.  kind in:
    depleted, superfluous, value, exceeded, subceeded, anticipated, selector, unknown_cc,
    enc_unsupported, enc_mismatch"""

    def __init__(self, kind, **kw):
        super().__init__(kind)
        self.kind = kind
        self.kw = kw

    def __repr__(self):
        return f"Problem({self.kind}, {self.kw})"


class Region:
    __slots__ = ("path", "start", "max", "kind", "closed")

    def __init__(self, path, start, max, kind):
        self.path = path  # path of the size field (None until the size field is read)
        self.start = start
        self.max = max
        self.kind = kind  # message | auth | param | tpm2b
        self.closed = False

    @property
    def end(self):
        return self.start + self.max

    def __repr__(self):
        return f"Region({pstr(self.path)}, start={self.start}, max={self.max}, {self.kind})"


class RefEvent:
    __slots__ = ("path", "tname", "value", "span", "bad")

    def __init__(self, path, tname, value, span=None):
        self.path = path
        self.tname = tname
        self.value = value  # int, or None for a structural (Ellipsis) event
        self.span = span
        self.bad = False

    def __repr__(self):
        return f"<{pstr(self.path)} {self.tname} {'...' if self.value is None else self.value}>"


class Message:
    __slots__ = ("kind", "start", "end", "cc", "enc", "complete")

    def __init__(self, kind, start, cc=None, enc=None):
        self.kind, self.start, self.end, self.cc, self.enc, self.complete = kind, start, None, cc, enc, False

    def __repr__(self):
        return f"Message({self.kind}, {self.start}..{self.end}, cc={self.cc}, enc={self.enc})"


ROOT = ((("",), None),)


def seg(name, index=None):
    return ((name,) if isinstance(name, str) else tuple(name), index)


def pstr(path):
    if path is None:
        return "None"
    return ".".join(
        (s[0][-1] if s[1] is None else f"{s[0][-1]}[{s[1]}]") for s in path
    )


def real_path(path):
    """tpmstream Path -> tuple of (name, index)."""
    return tuple((n.name, n.index) for n in path)


def path_matches(ref_path, rpath):
    """ref_path: tuple of ((names...), index); rpath: tuple of (name, index)."""
    if ref_path is None or rpath is None:
        return ref_path is None and rpath is None
    if len(ref_path) != len(rpath):
        return False
    for (names, idx), (n, i) in zip(ref_path, rpath):
        if i != idx or n not in names:
            return False
    return True


def in_intervals(v, intervals):
    for lo, hi in intervals:
        if lo <= v < hi:
            return True
    return False


class Ref:
    def __init__(self, data, strict=True, P=None):
        self.P = P or layout.pinned()
        self.T = self.P["types"]
        self.A = self.P["area_types"]
        self.d = bytes(data)
        self.pos = 0
        self.strict = strict
        self.open = []  # open regions, outermost first
        self.regions = []
        self.events = []
        self.bad = []
        self.messages = []
        self.outcome = None
        self.cc_seen = None  # code of the last command whose commandCode field was complete
        self.cc_hist = []  # (pos_after_field, code)

    # ---- helpers -------------------------------------------------------------------------
    def tdesc(self, name):
        if name in self.T:
            return self.T[name]
        if name in self.A:
            return self.A[name]
        raise KeyError(name)

    def emit(self, path, tname, value=None, span=None):
        e = RefEvent(path, tname, value, span)
        self.events.append(e)
        return e

    def prim(self, path, tname):
        d = self.T[tname]
        w = d["width"]
        # exceeded: decidable before the field is consumed
        viol = []
        for r in self.open:
            if r.max is not None and (self.pos - r.start) + w > r.max:
                viol.append(
                    dict(cpath=r.path, max=r.max, already=self.pos - r.start, vpath=path,
                         by=self.pos - r.start + w - r.max, region_end=r.end, region=r)
                )
        if viol:
            raise Problem("exceeded", alts=viol, pos=self.pos, **viol[0])
        if self.pos + w > len(self.d):
            raise Problem("depleted", pos=self.pos, need=self.pos + w, path=path)
        v = int.from_bytes(self.d[self.pos : self.pos + w], "big", signed=d["signed"])
        start = self.pos
        self.pos += w
        ok = in_intervals(v, d["valid"])
        if not ok:
            info = dict(path=path, tname=tname, value=v, span=(start, self.pos), valid=d["valid"])
            if self.strict:
                raise Problem("value", pos=start, **info)
            self.bad.append(info)
        e = self.emit(path, tname, v, (start, self.pos))
        e.bad = not ok
        return v

    def open_region(self, path, v, kind, region=None):
        viol = []
        for r in self.open:
            if r is region or r.max is None:
                continue
            if (self.pos - r.start) + v > r.max:
                viol.append(
                    dict(cpath=r.path, max=r.max, already=self.pos - r.start, vpath=path, value=v,
                         by=self.pos - r.start + v - r.max, region=r)
                )
        if region is None:
            region = Region(path, self.pos, v, kind)
            self.open.append(region)
            self.regions.append(region)
        else:
            region.path = path
            region.max = v
        if viol:
            raise Problem("anticipated", alts=viol, pos=self.pos, **viol[0])
        return region

    def close_region(self, region):
        self.open.remove(region)
        region.closed = True
        if self.pos != region.end:
            raise Problem(
                "subceeded", cpath=region.path, max=region.max, already=self.pos - region.start,
                pos=self.pos, region=region,
            )

    # ---- values --------------------------------------------------------------------------
    def value(self, tname, path, selector=None, count=None, enc=False, byte_region=None):
        if tname.startswith("list["):
            elem = tname[5:-1]
            self.emit(path, tname)
            parent, last = path[:-1], path[-1]
            if byte_region is not None:
                i = 0
                while self.pos - byte_region.start < byte_region.max:
                    self.value(elem, parent + ((last[0], i),))
                    i += 1
                return None
            for i in range(count):
                self.value(elem, parent + ((last[0], i),))
            return None
        d = self.tdesc(tname)
        k = d["kind"]
        if k == "prim":
            return self.prim(path, tname)
        if k == "tpm2b":
            return self.tpm2b(tname, d, path)
        if k == "union":
            return self.union(tname, d, path, selector)
        return self.struct(tname, d, path, enc)

    def struct(self, tname, d, path, enc=False):
        fl = [list(f) for f in d["fields"]]
        if enc and d.get("params_base") and fl and (fl[0][1] or "").startswith("TPM2B"):
            # only a sized buffer can be encrypted; any other parameter area keeps its plain layout
            fl[0][1] = "TPM2B_ENCRYPTED_PARAM"
        self.emit(path, tname)
        vals = {}
        last_scalar = None
        sels = d.get("selectors") or {}
        for n, ft in fl:
            p = path + (seg(n),)
            if ft.startswith("list["):
                if last_scalar is None or last_scalar < 0:
                    raise Problem("layout", what=f"list {tname}.{n} without a count", pos=self.pos)
                self.value(ft, p, count=last_scalar)
            elif n in sels:
                vals[n] = self.value(ft, p, selector=vals.get(sels[n]))
            else:
                v = self.value(ft, p)
                vals[n] = v
                if isinstance(v, int):
                    last_scalar = v
                else:
                    # the count is "the field directly before the list"; a non-primitive there is a layout error
                    last_scalar = None
        return vals

    def tpm2b(self, tname, d, path):
        self.emit(path, tname)
        (sn, st), (bn, bt) = d["fields"]
        sp = path + (seg(sn),)
        v = self.prim(sp, st)
        reg = self.open_region(sp, v, "tpm2b")
        bp = path + (seg(bn),)
        if bt.startswith("list["):
            self.value(bt, bp, count=v)
        elif v == 0:
            self.emit(bp, bt)
        else:
            self.value(bt, bp)
        self.close_region(reg)
        return {}

    def union(self, tname, d, path, selector):
        self.emit(path, tname)
        sel = d["select"]
        names = None
        if selector is not None and str(selector) in sel:
            names = sel[str(selector)]
        elif "*" in sel:
            names = sel["*"]
        if names is None:
            raise Problem("selector", path=path, tname=tname, selector=selector, pos=self.pos)
        members = {m[0]: m for m in d["members"]}
        # several members with the same selector value: interchangeable iff same type and length
        kinds = {(members[n][1], members[n][2]) for n in names}
        if len(kinds) != 1:
            # the last one wins in a reversed dict; the statement does not decide: take the last, accept no alias
            names = [names[-1]]
        mt, ml = members[names[-1]][1], members[names[-1]][2]
        if mt is None:
            return None
        p = path + ((tuple(names), None),)
        if mt.startswith("list["):
            if ml is None:
                raise Problem("layout", what=f"union list member {tname}.{names} without length", pos=self.pos)
            self.value(mt, p, count=ml)
        else:
            self.value(mt, p)
        return {}

    # ---- framing -------------------------------------------------------------------------
    def area(self, cc, table):
        a = self.P["areas"].get(str(cc))
        if a is None:
            return None
        return a[table]

    def command(self, path=ROOT):
        m = Message("command", self.pos)
        self.messages.append(m)
        self.emit(path, "Command")
        n0 = len(self.events)
        msg = Region(None, self.pos, None, "message")
        self.open.append(msg)
        self.regions.append(msg)
        F = dict(self.P["frames"]["Command"]["fields"])
        tag = self.prim(path + (seg("tag"),), F["tag"])
        size = self.prim(path + (seg("commandSize"),), F["commandSize"])
        self.open_region(path + (seg("commandSize"),), size, "message", region=msg)
        cc = self.prim(path + (seg("commandCode"),), F["commandCode"])
        self.cc_seen = cc
        self.cc_hist.append((self.pos, cc))
        m.cc = cc
        ht = self.area(cc, "command_handles")
        if ht is None:
            raise Problem("unknown_cc", path=path + (seg("commandCode"),), value=cc, pos=self.pos - 4,
                          span=(self.pos - 4, self.pos))
        self.value(ht, path + (seg("handles"),))
        dec = False
        if tag == CC_SESSIONS:
            ap = path + (seg("authSize"),)
            a = self.prim(ap, F["authSize"])
            reg = self.open_region(ap, a, "auth")
            n1 = len(self.events)
            self.value(F["authorizationArea"], path + (seg("authorizationArea"),), byte_region=reg)
            self.close_region(reg)
            attrs = [e.value for e in self.events[n1:] if e.value is not None and e.path[-1][0] == ("sessionAttributes",)]
            dec = any(v & ATTR_DECRYPT for v in attrs)
            m.enc = any(v & ATTR_ENCRYPT for v in attrs)
        else:
            m.enc = False
        self.value(self.area(cc, "command_params"), path + (seg("parameters"),), enc=dec)
        self.close_region(msg)
        m.end = self.pos
        m.complete = True
        return m

    def response(self, cc, enc, path=ROOT):
        m = Message("response", self.pos, cc=cc, enc=enc)
        self.messages.append(m)
        self.emit(path, "Response")
        msg = Region(None, self.pos, None, "message")
        self.open.append(msg)
        self.regions.append(msg)
        F = dict(self.P["frames"]["Response"]["fields"])
        tag = self.prim(path + (seg("tag"),), F["tag"])
        size = self.prim(path + (seg("responseSize"),), F["responseSize"])
        self.open_region(path + (seg("responseSize"),), size, "message", region=msg)
        rc = self.prim(path + (seg("responseCode"),), F["responseCode"])
        if rc == 0:
            ht = self.area(cc, "response_handles")
            if ht is None:
                raise Problem("unknown_cc", path=None, value=cc, pos=self.pos, response=True)
            self.value(ht, path + (seg("handles"),))
            reg = None
            if tag == CC_SESSIONS:
                pp = path + (seg("parameterSize"),)
                ps = self.prim(pp, F["parameterSize"])
                reg = self.open_region(pp, ps, "param")
            self.value(self.area(cc, "response_params"), path + (seg("parameters"),), enc=bool(enc))
            if reg is not None:
                self.close_region(reg)
                n1 = len(self.events)
                self.value(F["authorizationArea"], path + (seg("authorizationArea"),), byte_region=msg)
                attrs = [e.value for e in self.events[n1:] if e.value is not None and e.path[-1][0] == ("sessionAttributes",)]
                got = any(v & ATTR_ENCRYPT for v in attrs)
                if got != bool(enc):
                    self.close_region(msg)
                    raise Problem("enc_mismatch", flag=enc, sessions=got, pos=self.pos)
        self.close_region(msg)
        m.end = self.pos
        m.complete = True
        return m

    def stream(self, path=ROOT):
        while True:
            if self.pos == len(self.d):
                return
            c = self.command(path)
            if self.pos == len(self.d):
                return
            self.response(c.cc, c.enc or None, path)


def decode(tname, data, cc=None, enc=None, strict=True, P=None):
    """Interpret ``data`` as ``tname`` ('Command', 'Response', 'CommandResponseStream' or a type name)."""
    r = Ref(data, strict, P)
    try:
        if tname == "Command":
            r.command()
        elif tname == "Response":
            r.response(cc, enc)
        elif tname == "CommandResponseStream":
            r.stream()
        else:
            r.value(tname, ROOT, enc=bool(enc))
        if r.pos < len(r.d):
            raise Problem("superfluous", rest=r.d[r.pos :], pos=r.pos)
        r.outcome = Problem("ok", pos=r.pos)
    except Problem as p:
        r.outcome = p
    return r


def first_bad_strict_equivalent(r):
    """For a lenient decode: the first value problem, i.e. what strict mode must report."""
    return r.bad[0] if r.bad else None
