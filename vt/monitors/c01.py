"""C01 - well-formed encodings decode to exactly the field-by-field event sequence.

History + executable model: the strict decoder's complete event list (path, declared type, value,
value class) is compared with the reference interpreter's, on encodings generated from the pinned
layout and on the captured corpus.
"""
import random

from .. import cases, gen, history, layout, oracles, probes

PROPERTY = "C01"
LEVEL = "exploration"
RULE = (
    "generated encodings of every non-union structure type (random values from the pinned allowed sets, every selector "
    "value of every selector-carrying structure, forced list lengths / buffer sizes, empty structured TPM2Bs), of every "
    "command code x {command, response} x 12 session/encryption/failure configurations, and the captured corpus; one "
    "evaluation = one strict decode compared with the reference; between the judged decodes hostile scenes run in the same process (strict decodes that abort inside sized regions, warn-mode decodes of malformed input, generators abandoned part-way - closed, left alive, resumed later); distinct = distinct (type or code/direction/"
    "configuration, union arms taken, event count) signatures with at least one primitive field"
)
ASSUMPTIONS = [
    "pinned layout snapshot + framing rules of the reference interpreter",
    "harness self-check: generator's intended events == reference's events, else the case is dropped and the run is inconclusive",
]
ANCHORS = probes.WALKERS


def plan(tier, seed):
    types = cases.non_union_types()
    ccs = gen.ccs()
    shards = []
    ns, nm, ncorp = (6, 6, 4) if tier == "quick" else (12, 16, 8)
    for i in range(ns):
        shards.append(dict(name=f"struct{i}", kind="struct", types=types[i::ns], per_type=6 if tier == "quick" else 120))
    for i in range(nm):
        shards.append(dict(name=f"msg{i}", kind="msg", ccs=ccs[i::nm], per_cfg=1 if tier == "quick" else 25))
    for i in range(ncorp):
        shards.append(dict(name=f"corpus{i}", kind="corpus", start=i, step=ncorp * (8 if tier == "quick" else 1)))
    # every worker is a fresh interpreter: give each its own string hash seed, so that layout decisions taken from set /
    # dict-of-set iteration order at import time differ between shards
    for i, sh in enumerate(shards):
        sh["hashseed"] = (int(seed) * 16 + i) % 4096
    return shards


def check_case(case, rec):
    ref = case.ref()
    if case.intended is not None:
        sc = gen.intended_mismatch(case.intended, ref)
        if sc:
            rec.count("selfcheck_dropped")
            rec.sample(dict(case=case.short(), why=sc), "selfcheck")
            return
    kind = oracles.ref_kind(ref)
    if kind != "ok":
        # corpus packets the reference does not classify as well-formed belong to C03/C04
        rec.count(f"not_wellformed_{kind}")
        return
    ref, t, kind, findings = oracles.strict_vs_ref(case, ref)
    nontrivial = any(e.value is not None for e in ref.events)
    rec.case(case.sig, nontrivial)
    rec.count("events_compared", len(ref.events))
    rec.add("types" if case.t not in ("Command", "Response") else "codes_" + case.t, case.t if case.cc is None and case.t != "Command" else (case.cc if case.cc is not None else ref.messages[0].cc))
    for e in ref.events:
        if len(e.path) >= 2 and len(e.path[-1][0]) >= 1 and e.value is None:
            pass
    for rule, mech, msg in findings:
        rep = case.replay()
        if history.COUNT:
            rep["history"] = history.COUNT
            msg += f"\n(decoded after {history.COUNT} hostile scenes - aborted, abandoned and still-open decodes - in the same process; the replay runs them first)"
        rec.violation(rule, mech, f"{case.short()}\n{msg}", rep)
    rec.sample(dict(case=case.short(), events=len(ref.events)))


def run_shard(shard, rec):
    rng = random.Random(f"{shard.get('seed', 0)}:C01:{shard['name']}")
    hrng = random.Random(f"{shard.get('seed', 0)}:C01:history:{shard['name']}")
    big = shard.get("tier") == "thorough"
    n = 0

    def hostile():
        # a well-formed encoding must decode the same whatever was decoded - or given up - before it in this process
        nonlocal n
        n += 1
        if n % 5 == 2:
            history.disturb(hrng, rec, n=2)

    with probes.Anchors(ANCHORS, rec):
        if shard["kind"] == "struct":
            for case in cases.struct_cases(shard["types"], rng, shard["per_type"], big=big):
                hostile()
                check_case(case, rec)
                if case.origin == "gen-arm":
                    rec.add("arms", list(case.sig[1:4]))
        elif shard["kind"] == "msg":
            for c, r in cases.msg_cases(shard["ccs"], rng, shard["per_cfg"], big=big):
                hostile()
                check_case(c, rec)
                check_case(r, rec)
                if r.enc is None and len(r.d) == 10 and r.d[6:10] != b"\0\0\0\0":
                    # a failed response to a command that had asked for response encryption: still header only
                    check_case(cases.Case(r.t, r.d, r.cc, True, origin=r.origin, intended=None, sig=r.sig + ("enc-flag",)), rec)
                    rec.count("failed_responses_with_encryption_flag")
                rec.add("configs", [c.sig[2]])
        else:
            for c, r in cases.corpus_cases(shard["start"], shard["step"]):
                hostile()
                check_case(c, rec)
                check_case(r, rec)


def finish(m, tier):
    inc = []
    if m["counters"].get("selfcheck_dropped"):
        inc.append(f"harness self-check dropped {m['counters']['selfcheck_dropped']} generated cases")
    P = layout.pinned()
    nt = len(cases.non_union_types(P))
    cov = dict(
        types_covered=f"{len(m['sets'].get('types', ()))}/{nt}",
        command_codes_covered=f"{len(m['sets'].get('codes_Command', ()))}/{len(P['command_codes'])}",
        response_codes_covered=f"{len(m['sets'].get('codes_Response', ()))}/{len(P['command_codes'])}",
        selector_values_swept=len(m["sets"].get("arms", ())),
    )
    if len(m["sets"].get("types", ())) < nt:
        inc.append(f"only {len(m['sets'].get('types', ()))} of {nt} structure types were decoded")
    for k in ("codes_Command", "codes_Response"):
        if len(m["sets"].get(k, ())) < len(P["command_codes"]):
            inc.append(f"{k}: only {len(m['sets'].get(k, ()))} codes covered")
    if not m["counters"].get("failed_responses_with_encryption_flag"):
        inc.append("no failed response was decoded with the response-encryption flag")
    if not m["counters"].get("hostile_history_scenes"):
        inc.append("no hostile history scene was run")
    inc += probes.missing(m, ANCHORS)
    return dict(inconclusive=inc, coverage=cov)


def replay(r, rec):
    if r.get("history"):
        for _ in range(12):
            history.disturb(None, rec, n=4)
        # what an aborted decode leaves behind may take several further decodes to show (a stale region is charged
        # until it overflows): decode the case repeatedly, with aborted decodes in between
        case = cases.Case.from_replay(r)
        for i in range(60):
            if i % 6 == 0:
                history.aborted_scenes(rec)
            check_case(case, rec)
            if rec.viol_total:
                return
        return
    check_case(cases.Case.from_replay(r), rec)
