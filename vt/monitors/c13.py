"""C13 - a constraint error accounts for every input byte.

Conservation law over the strict-mode trace: input = bytes of the emitted fields + consumed offending bytes
(the bad field, or the rest of the overrun region) + bytes(error.bytes_remaining), for every strict rejection
produced by the size / value fault enumeration, with the fault at every position including the final field.
"""
import random

from .. import cases, oracles
from .. import trace as TR
from .. import refmodel as R
from . import _strict

PROPERTY = "C13"
LEVEL = "fault_enumeration"
RULE = (
    "strict rejections (value, exceeded, subceeded, anticipated) produced by perturbing every size/count field and every "
    "constrained leaf of generated messages / structures / corpus packets, plus all small-alphabet strings for nested "
    "size-prefixed types; per rejection the remaining-bytes attribute is read once with bytes() and the conservation law is "
    "checked; distinct = distinct (type/code, fault field, perturbation, error class) cases; the count of rejections whose "
    "expected remainder is empty (problem on the last byte) is reported"
)
ASSUMPTIONS = ["offending bytes of an overrun = input from the end of the emitted fields to the declared end of the region the error names (region end from the reference, cross-checked with the error's own limit/counted figures)"]


def plan(tier, seed):
    shards = _strict.plan_bases(tier, quick_msgs_cfgs=2, thorough_cfgs=6, struct_per_type=(1, 3))
    L, parts = (4, 2) if tier == "quick" else (6, 8)
    for p in range(parts):
        shards.append(dict(name=f"small{p}", kind="small", L=L, part=p, parts=parts))
    return shards


def check(case, rec, tpm_type=None, P=None):
    ref = R.decode(case.t, case.d, cc=case.cc, enc=case.enc, strict=True, P=P)
    t = TR.run(tpm_type or case.t, case.d, strict=True, cc=case.cc, enc=case.enc)
    if t.outcome[0] != "constraint":
        rec.count(f"not_a_constraint_error_{t.outcome[0]}")
        return
    cls = t.outcome[1]["cls"]
    rec.case((case.sig, cls), nontrivial=True)
    rec.count(f"err_{cls}")
    rem = t.outcome[1].get("rem")
    if rem == b"":
        rec.count("problem_on_last_byte")
    for rule, mech, msg in oracles.conservation_strict(case, ref, t):
        rec.violation(rule, mech, f"{case.short()}\n{msg}", case.replay())
    rec.sample(dict(case=case.short(), error=cls, remaining=rem.hex()[:40] if isinstance(rem, bytes) else repr(rem)), bucket=f"sample_{cls}", cap=2)


def run_shard(shard, rec):
    rng = random.Random(f"{shard.get('seed', 0)}:C13:{shard['name']}")
    thorough = shard.get("tier") == "thorough"
    if shard["kind"] == "small":
        for case, T, P in _strict.small_cases(shard["L"], shard["part"], shard["parts"]):
            check(case, rec, T, P)
        return
    for base in _strict.base_cases(shard, rng):
        bref = base.ref()
        if bref.outcome.kind != "ok":
            check(base, rec)
            continue
        rec.count("bases")
        for fc in cases.size_faults(base, bref, ks=(1, 3), limit=None if thorough else 8, rng=rng):
            check(fc, rec)
        # value faults: always include the last constrained leaf (problem on the very last byte)
        vf = list(cases.value_faults(base, bref, rng, limit=None))
        if not thorough and len(vf) > 24:
            vf = vf[-8:] + rng.sample(vf[:-8], 16)
        for fc in vf:
            check(fc, rec)


def finish(m, tier):
    inc = []
    for k in ("err_ValueConstraintViolatedError", "err_SizeConstraintExceededError", "err_SizeConstraintSubceededError",
              "err_AnticipatedSizeConstraintExceededError", "problem_on_last_byte"):
        if not m["counters"].get(k):
            inc.append(f"no case of {k}")
    return dict(inconclusive=inc)


def replay(r, rec):
    case = cases.Case.from_replay(r)
    if case.origin == "small":
        classes, P = _strict.synthetic()
        check(case, rec, classes.get(case.t) or case.t, P)
    else:
        check(case, rec)
