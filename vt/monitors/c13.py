"""C13 - a constraint error accounts for every input byte.

Conservation law over the strict-mode trace: input = bytes of the emitted fields + consumed offending bytes
(the bad field, or the rest of the overrun region) + bytes(error.bytes_remaining), for every strict rejection
produced by the size / value fault enumeration, with the fault at every position including the final field.
"""
import random

from .. import cases, oracles
from .. import trace as TR
from .. import refmodel as R
from . import _strict

PROPERTY = "C13"
LEVEL = "fault_enumeration"
RULE = (
    "strict rejections (value, exceeded, subceeded, anticipated) produced by perturbing every size/count field and every "
    "constrained leaf of generated messages / structures / corpus packets, plus all small-alphabet strings for nested "
    "size-prefixed types; per rejection the remaining-bytes attribute is read once with bytes() and the conservation law is "
    "checked, and the rejection is repeated with the bytes supplied by another kind of source (generator, iterator, object with close(), file objects, hex front-end, bytes, bytearray, list - rotating) and must give the same class, remainder and event count; distinct = distinct (type/code, fault field, perturbation, error class) cases; the count of rejections whose "
    "expected remainder is empty (problem on the last byte) is reported"
)
OTHER_SOURCES = ("generator", "hexfront", "iter", "files", "closing", "bytes", "bytearray", "list")
ASSUMPTIONS = ["offending bytes of an overrun = input from the end of the emitted fields to the declared end of the region the error names (region end from the reference, cross-checked with the error's own limit/counted figures)"]


def plan(tier, seed):
    shards = _strict.plan_bases(tier, quick_msgs_cfgs=2, thorough_cfgs=6, struct_per_type=(1, 3))
    L, parts = (4, 2) if tier == "quick" else (6, 8)
    for p in range(parts):
        shards.append(dict(name=f"small{p}", kind="small", L=L, part=p, parts=parts))
    return shards


def check(case, rec, tpm_type=None, P=None):
    ref = R.decode(case.t, case.d, cc=case.cc, enc=case.enc, strict=True, P=P)
    t = TR.run(tpm_type or case.t, case.d, strict=True, cc=case.cc, enc=case.enc)
    if t.outcome[0] != "constraint":
        rec.count(f"not_a_constraint_error_{t.outcome[0]}")
        return
    cls = t.outcome[1]["cls"]
    rec.case((case.sig, cls), nontrivial=True)
    rec.count(f"err_{cls}")
    rem = t.outcome[1].get("rem")
    if rem == b"":
        rec.count("problem_on_last_byte")
    for rule, mech, msg in oracles.conservation_strict(case, ref, t):
        rec.violation(rule, mech, f"{case.short()}\n{msg}", case.replay())
    # the same rejection with the bytes supplied by other kinds of sources (a generator, a plain iterator, an object
    # with close(), file objects, the hex front-end): the error must account for the bytes in the same way
    n = rec.counters.get("other_source_runs", 0)
    kind = OTHER_SOURCES[n % len(OTHER_SOURCES)]
    rec.count("other_source_runs")
    rec.count(f"source_{kind}")
    if kind == "hexfront":
        from tpmstream.io.hex import Hex

        t2 = TR.run(tpm_type or case.t, case.d, strict=True, cc=case.cc, enc=case.enc, front=Hex, container=case.d.hex().encode())
    else:
        t2 = TR.run(tpm_type or case.t, case.d, strict=True, cc=case.cc, enc=case.enc, source_kind=kind)
    a, b = t.outcome, t2.outcome
    same = a[0] == b[0] and (a[0] != "constraint" or (a[1]["cls"], a[1].get("rem")) == (b[1]["cls"], b[1].get("rem"))) and len(t.events) == len(t2.events)
    if not same:
        show = lambda o: (o[1]["cls"], o[1].get("rem").hex() if isinstance(o[1].get("rem"), bytes) else o[1].get("rem")) if o[0] == "constraint" else o[:1]
        rep = dict(case.replay(), source=kind)
        rec.violation("source-kind", f"{kind}:{cls}", f"{case.short()}\nfrom a counting iterator: {show(a)} after {len(t.events)} events; from source kind '{kind}': {show(b)} after {len(t2.events)} events", rep)
    rec.sample(dict(case=case.short(), error=cls, remaining=rem.hex()[:40] if isinstance(rem, bytes) else repr(rem)), bucket=f"sample_{cls}", cap=2)


def run_shard(shard, rec):
    rng = random.Random(f"{shard.get('seed', 0)}:C13:{shard['name']}")
    thorough = shard.get("tier") == "thorough"
    if shard["kind"] == "small":
        for case, T, P in _strict.small_cases(shard["L"], shard["part"], shard["parts"]):
            check(case, rec, T, P)
        return
    for base in _strict.base_cases(shard, rng):
        bref = base.ref()
        if bref.outcome.kind != "ok":
            check(base, rec)
            continue
        rec.count("bases")
        for fc in cases.size_faults(base, bref, ks=(1, 3), limit=None if thorough else 8, rng=rng):
            check(fc, rec)
        # value faults: always include the last constrained leaf (problem on the very last byte)
        vf = list(cases.value_faults(base, bref, rng, limit=None))
        if not thorough and len(vf) > 24:
            vf = vf[-8:] + rng.sample(vf[:-8], 16)
        for fc in vf:
            check(fc, rec)


def finish(m, tier):
    inc = []
    for k in ("source_generator", "source_hexfront", "source_files", "source_closing", "err_ValueConstraintViolatedError", "err_SizeConstraintExceededError", "err_SizeConstraintSubceededError",
              "err_AnticipatedSizeConstraintExceededError", "problem_on_last_byte"):
        if not m["counters"].get(k):
            inc.append(f"no case of {k}")
    return dict(inconclusive=inc)


def replay(r, rec):
    case = cases.Case.from_replay(r)
    if case.origin == "small":
        classes, P = _strict.synthetic()
        check(case, rec, classes.get(case.t) or case.t, P)
    else:
        check(case, rec)
