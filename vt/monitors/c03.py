"""C03 - strict mode accepts an input only if every size field is exact; otherwise the earliest decidable error
with exact details.

Fault enumeration: every size / count field of well-formed messages and structures is perturbed (-k, +k, 0,
max; pairs of faults in the thorough tier), plus all byte strings up to a length bound over a small alphabet
for nested size-prefixed types (real and synthetic).  Oracle: the reference's region model.
"""
import random

from .. import cases, oracles, probes
from . import _strict

PROPERTY = "C03"
LEVEL = "fault_enumeration"
RULE = (
    "every size field (commandSize, responseSize, authSize, parameterSize, every TPM2B size at any nesting depth) and "
    "every list count of generated messages / structures / corpus packets is set to v-k, v+k (k in 1,2,5), 0 and max "
    "(thorough: also pairs of such faults); plus every string over {00,01,02,03,04,ff} up to length L (quick 4, thorough 6) "
    "decoded as 10 nested size-prefixed types; the strict outcome (error class, size-field path, limit, counted, offending "
    "path, by/value) and the events before it are compared with the reference; distinct = distinct (type/code, field kind, "
    "field path, perturbation) and (type, string) cases"
)
ASSUMPTIONS = [
    "reference region model (DESIGN.md 2.2); simultaneous violations of several regions by one field: any may be named",
    "an overrun whose region ends beyond the input may surface as InputStreamBytesDepletedError",
]
KINDS = oracles.SIZE_KINDS
ANCHORS = probes.SIZE_RAISES


def plan(tier, seed):
    shards = _strict.plan_bases(tier)
    L, parts = (4, 4) if tier == "quick" else (6, 16)
    for p in range(parts):
        shards.append(dict(name=f"small{p}", kind="small", L=L, part=p, parts=parts))
    return shards


def run_shard(shard, rec):
    rng = random.Random(f"{shard.get('seed', 0)}:C03:{shard['name']}")
    thorough = shard.get("tier") == "thorough"
    with probes.Anchors(ANCHORS, rec):
        if shard["kind"] == "small":
            for case, T, P in _strict.small_cases(shard["L"], shard["part"], shard["parts"]):
                ref, t, kind = _strict.evaluate(case, rec, KINDS, tpm_type=T, P=P)
                rec.case(case.sig, nontrivial=kind in KINDS)
            rec.count("small_exhaustive_L", 0)
            return
        for base in _strict.base_cases(shard, rng):
            bref = base.ref()
            if bref.outcome.kind != "ok":
                continue
            rec.count("bases")
            faults = list(cases.size_faults(base, bref, limit=None if thorough else 10, rng=rng))
            for fc in faults:
                ref, t, kind = _strict.evaluate(fc, rec, KINDS)
                rec.case(fc.sig, nontrivial=kind in KINDS)
                rec.count(f"field_{fc.fault['fkind']}")
                if kind in KINDS:
                    rec.count(f"depth_{depth(ref)}")
                    rec.sample(dict(case=fc.short(), reference=kind, decoder=t.okind()), bucket=f"sample_{kind}", cap=2)
            for fc in cases.nested_pair_faults(base, bref, rng, limit=None if thorough else 2):
                ref, t, kind = _strict.evaluate(fc, rec, KINDS)
                rec.case(fc.sig, nontrivial=kind in KINDS)
                rec.count("nested_pair_faults")
            if thorough and len(faults) >= 2:
                for _ in range(4):
                    f1, f2 = rng.sample(faults, 2)
                    if f1.fault["field"] == f2.fault["field"]:
                        continue
                    d = bytearray(f1.d)
                    # apply the second fault on top of the first (same length, different spans)
                    for i, (a, b) in enumerate(zip(base.d, f2.d)):
                        if a != b:
                            d[i] = b
                    fc = cases.Case(base.t, bytes(d), base.cc, base.enc, origin=base.origin,
                                    fault=dict(kind="size2", fields=[f1.fault, f2.fault]), sig=("size2", base.t, base.cc, f1.sig[4:], f2.sig[4:]))
                    ref, t, kind = _strict.evaluate(fc, rec, KINDS)
                    rec.case(fc.sig, nontrivial=kind in KINDS)
                    rec.count("double_faults")


def depth(ref):
    """Nesting depth of the violated region = number of regions open when the problem was found."""
    return min(len(ref.open), 5)


def finish(m, tier):
    inc = probes.missing(m, ANCHORS)
    for k in KINDS:
        if not m["counters"].get(f"ref_{k}"):
            inc.append(f"no case in which the reference expects {k}")
    for f in ("field_message", "field_auth", "field_param", "field_tpm2b", "field_count"):
        if not m["counters"].get(f):
            inc.append(f"no fault injected into a {f}")
    return dict(inconclusive=inc, coverage=dict(small_alphabet_exhaustive_to_length=4 if tier == "quick" else 6))


def replay(r, rec):
    case = cases.Case.from_replay(r)
    if case.origin == "small":
        classes, P = _strict.synthetic()
        _strict.evaluate(case, rec, KINDS, tpm_type=classes.get(case.t) or case.t, P=P)
    else:
        _strict.evaluate(case, rec, KINDS)
