"""Shared pieces of the strict-mode fault monitors (C03, C04, C05, C13) and the small-alphabet workload."""
import itertools
import random

from .. import cases, cmp, gen, layout, oracles
from .. import refmodel as R
from .. import trace as TR

ALPHABET = (0x00, 0x01, 0x02, 0x03, 0x04, 0xFF)
REAL_SMALL = ("TPM2B_SENSITIVE_CREATE", "TPM2B_ECC_POINT", "TPML_DIGEST", "TPM2B_CREATION_DATA", "TPMT_HA", "TPML_PCR_SELECTION")
SYN_SMALL = ("TPM2B_VT_OUTER", "TPMS_VT_OUTER", "TPM2B_VT_MID", "TPML_VT_LIST")

_syn = None


def synthetic():
    """Synthetic nested size-prefixed types built with the repository's own tpm_dataclass (UINT8 sizes keep the
    exhaustive strings short).  Returns (classes by name, pinned layout extended with their descriptions)."""
    global _syn
    if _syn is not None:
        return _syn
    from tpmstream.spec.common.values import tpm_dataclass
    from tpmstream.spec.structures.base_types import BYTE, UINT8

    @tpm_dataclass
    class TPM2B_VT_INNER:
        size: UINT8
        buffer: list[BYTE]

    @tpm_dataclass
    class TPMS_VT_MID:
        a: TPM2B_VT_INNER
        b: UINT8

    @tpm_dataclass
    class TPM2B_VT_MID:
        size: UINT8
        mid: TPMS_VT_MID

    @tpm_dataclass
    class TPML_VT_LIST:
        count: UINT8
        items: list[TPM2B_VT_INNER]

    @tpm_dataclass
    class TPMS_VT_OUTER:
        x: TPM2B_VT_MID
        l: TPML_VT_LIST

    @tpm_dataclass
    class TPM2B_VT_OUTER:
        size: UINT8
        outer: TPMS_VT_OUTER

    classes = {c.__name__: c for c in (TPM2B_VT_INNER, TPMS_VT_MID, TPM2B_VT_MID, TPML_VT_LIST, TPMS_VT_OUTER, TPM2B_VT_OUTER)}
    P = dict(layout.pinned())
    P["types"] = dict(P["types"])
    for n, c in classes.items():
        P["types"][n] = layout.describe(c)
    _syn = (classes, P)
    return _syn


def small_strings(L, part, parts):
    """All strings over ALPHABET up to length L; this shard's share."""
    i = 0
    for n in range(L + 1):
        for tup in itertools.product(ALPHABET, repeat=n):
            if i % parts == part:
                yield bytes(tup)
            i += 1


def small_cases(L, part, parts, types=None):
    classes, P = synthetic()
    for s in small_strings(L, part, parts):
        for tn in types or (REAL_SMALL + SYN_SMALL):
            c = cases.Case(tn, s, origin="small", sig=("small", tn, s.hex()))
            yield c, (classes.get(tn) or tn), P


def base_cases(shard, rng, hostile=None):
    """Well-formed messages / structures that faults are injected into.  ``hostile``: a recorder - hostile scenes (aborted,
    abandoned, still-open decodes; vt/history.py) are then run in this process between the cases."""
    if hostile is None:
        yield from _base_cases(shard, rng)
        return
    from .. import history

    hrng = random.Random(f"{shard.get('seed', 0)}:history:{shard.get('name')}")
    for i, c in enumerate(_base_cases(shard, rng)):
        if i % 5 == 2:
            history.disturb(hrng, hostile, n=2)
        yield c


def _base_cases(shard, rng):
    big = False
    k = shard["kind"]
    if k == "msg":
        for c, r in cases.msg_cases(shard["ccs"], rng, 1, configs=shard_configs(shard, rng)):
            yield c
            yield r
    elif k == "struct":
        for c in cases.struct_cases(shard["types"], rng, shard.get("per_type", 1), sweep=shard.get("sweep", False), big=big):
            yield c
    elif k == "corpus":
        for c, r in cases.corpus_cases(shard["start"], shard["step"]):
            yield c
            yield r
    elif k == "stream":
        for s, msgs in cases.stream_cases(rng, shard["n"], max_pairs=shard.get("max_pairs", 4)):
            yield s


def shard_configs(shard, rng):
    n = shard.get("n_configs")
    if not n:
        return cases.CONFIGS
    return rng.sample(cases.CONFIGS, n)


def plan_bases(tier, quick_msgs_cfgs=2, thorough_cfgs=8, struct_per_type=(1, 4), corpus_step=(40, 4), nshards=(8, 14)):
    types = cases.non_union_types()
    ccs = gen.ccs()
    q = tier == "quick"
    ns = nshards[0] if q else nshards[1]
    shards = []
    for i in range(ns):
        shards.append(dict(name=f"msg{i}", kind="msg", ccs=ccs[i::ns], n_configs=quick_msgs_cfgs if q else thorough_cfgs))
    for i in range(ns):
        shards.append(dict(name=f"struct{i}", kind="struct", types=types[i::ns], per_type=struct_per_type[0] if q else struct_per_type[1], sweep=not q))
    nc = 2 if q else 6
    for i in range(nc):
        shards.append(dict(name=f"corpus{i}", kind="corpus", start=i, step=nc * (corpus_step[0] if q else corpus_step[1])))
    return shards


def evaluate(case, rec, kinds, tpm_type=None, P=None, iff_value=False):
    """Strict decode vs reference; findings are attributed to the calling property when the reference's first
    problem is one of ``kinds``.  Returns (ref, trace, kind)."""
    ref = R.decode(case.t, case.d, cc=case.cc, enc=case.enc, strict=True, P=P)
    # every fifth decode is rooted somewhere else than '.': paths of events and errors must follow the root they are given
    rooted = rec.evaluations % 5 == 3
    t = TR.run(tpm_type or case.t, case.d, strict=True, cc=case.cc, enc=case.enc, rooted=rooted)
    if rooted:
        rec.count("rooted_decodes")
        if t.root_escapes:
            rec.violation("root-path", "path-outside-root", f"{case.short()}\ndecoded with root_path='.log.msg[2]': {TR.pstr(t.root_escapes[0])} does not lie under that root "
                                                            f"(outcome {t.outcome[0]})", dict(case.replay(), rooted=True))
    ref, t, kind, findings = oracles.strict_vs_ref(case, ref, t)
    rec.count(f"ref_{kind}")
    rec.count(f"got_{t.okind()}")
    mine = kind in kinds
    if iff_value and kind == "ok" and t.okind() == "ValueConstraintViolatedError":
        mine = True
    if mine:
        for rule, mech, msg in findings:
            rec.violation(rule, mech, f"{case.short()}\n{msg}", case.replay())
    elif findings:
        rec.count("findings_routed_to_other_property")
    return ref, t, kind
