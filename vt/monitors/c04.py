"""C04 - strict mode rejects exactly the inputs containing an out-of-range value.

Fault enumeration: every constrained leaf of well-formed messages / structures is replaced by values just
outside and far outside its pinned allowed set, and by every valid boundary value (which must be accepted);
two bad leaves test "first in wire order".  Oracle: the reference's lenient/strict interpretation with the
pinned value sets.
"""
import random

from .. import cases, layout, oracles, probes
from .. import refmodel as R
from . import _strict

PROPERTY = "C04"
LEVEL = "fault_enumeration"
RULE = (
    "every constrained leaf (primitive whose pinned allowed set is smaller than its width) of generated messages, "
    "structures and corpus packets is set to: each allowed-interval end point -1 / +0 / last / +1, zero, all-ones, the sign "
    "bit and a random value; boundary values inside the set must be accepted, values outside must raise "
    "ValueConstraintViolatedError for exactly that field (path, declared type, integer, allowed set probed at every pinned "
    "interval end point +-1) with the events of all earlier fields and none for the offending one; thorough: also two bad "
    "leaves at once (the first must be reported); distinct = distinct (type/code, leaf path, perturbation) cases"
)
ASSUMPTIONS = ["pinned allowed sets; the allowed set of an error is compared by membership at the pinned interval end points +-1, not enumerated"]
KINDS = oracles.VALUE_KINDS
ANCHORS = probes.VALUE_RAISE[:1]


def plan(tier, seed):
    return _strict.plan_bases(tier)


def valid_set_mismatch(t, ref):
    """The error's allowed set must have the pinned membership at every pinned interval end point +-1."""
    if t.outcome[0] != "constraint" or t.outcome[1]["cls"] != "ValueConstraintViolatedError":
        return None
    if ref.outcome.kind == "unknown_cc":
        tn = "TPM_CC"
    elif ref.outcome.kind == "value":
        tn = ref.outcome.kw["tname"]
    else:
        return None
    iv = layout.pinned()["types"][tn]["valid"]
    vv = t.exc.constraint.valid_values
    probes_ = set()
    for a, b in iv:
        probes_.update((a - 1, a, b - 1, b))
    for v in sorted(probes_):
        try:
            got = v in vv
        except Exception as e:
            return f"membership test {v} in allowed set raised {type(e).__name__}"
        if got != R.in_intervals(v, iv):
            return f"allowed set of the error disagrees with the pinned set of {tn} at {v:#x}: {got}"
    return None


def run_shard(shard, rec):
    rng = random.Random(f"{shard.get('seed', 0)}:C04:{shard['name']}")
    thorough = shard.get("tier") == "thorough"
    with probes.Anchors(ANCHORS, rec):
        for base in _strict.base_cases(shard, rng):
            bref = base.ref()
            if bref.outcome.kind != "ok":
                if bref.outcome.kind in KINDS and base.origin.startswith("corpus"):
                    # captured packets carrying an out-of-range value are value cases in their own right
                    _strict.evaluate(base, rec, KINDS, iff_value=True)
                    rec.case(("corpus-bad", base.sig))
                continue
            rec.count("bases")
            for fc in cases.value_faults(base, bref, rng, limit=None if thorough else 5, second=thorough):
                ref, t, kind = _strict.evaluate(fc, rec, KINDS, iff_value=True)
                rec.case(fc.sig, nontrivial=True)
                rec.count(f"perturb_{fc.fault.get('change', 'two')}")
                if fc.fault.get("field") == ".commandCode" and kind in KINDS:
                    rec.count("fault_on_commandCode")
                if kind in KINDS:
                    why = valid_set_mismatch(t, ref)
                    rec.count("allowed_sets_probed")
                    if why:
                        rec.violation("allowed-set", f"{ref.outcome.kw.get('tname', 'TPM_CC')}", f"{fc.short()}\n{why}", fc.replay())
                    rec.sample(dict(case=fc.short(), reference=kind, decoder=t.okind()), bucket="sample_rejected", cap=3)
                elif kind == "ok":
                    rec.count("valid_boundary_kept")
                    rec.sample(dict(case=fc.short(), reference=kind, decoder=t.okind()), bucket="sample_accepted", cap=2)


def finish(m, tier):
    inc = probes.missing(m, ANCHORS)
    if not m["counters"].get("ref_value"):
        inc.append("no case in which the reference expects a value error")
    if not m["counters"].get("valid_boundary_kept"):
        inc.append("no valid boundary value was kept")
    if not m["counters"].get("fault_on_commandCode"):
        inc.append("no reserved command code case")
    return dict(inconclusive=inc)


def replay(r, rec):
    case = cases.Case.from_replay(r)
    ref, t, kind = _strict.evaluate(case, rec, KINDS, iff_value=True)
    if kind in KINDS:
        why = valid_set_mismatch(t, ref)
        if why:
            rec.violation("allowed-set", "replay", why, r)
