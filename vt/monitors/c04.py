"""C04 - strict mode rejects exactly the inputs containing an out-of-range value.

Fault enumeration: every constrained leaf of well-formed messages / structures is replaced by values just
outside and far outside its pinned allowed set, and by every valid boundary value (which must be accepted);
two bad leaves test "first in wire order".  Oracle: the reference's lenient/strict interpretation with the
pinned value sets.
"""
import random

from .. import cases, layout, oracles, probes
from .. import refmodel as R
from .. import trace as TR
from . import _strict

PROPERTY = "C04"
LEVEL = "fault_enumeration"
RULE = (
    "every constrained leaf (primitive whose pinned allowed set is smaller than its width) of generated messages, "
    "structures and corpus packets is set to: each allowed-interval end point -1 / +0 / last / +1, zero, all-ones, the sign "
    "bit and a random value; boundary values inside the set must be accepted, values outside must raise "
    "ValueConstraintViolatedError for exactly that field (path, declared type, integer, allowed set probed at every pinned "
    "interval end point +-1) with the events of all earlier fields and none for the offending one; thorough: also two bad "
    "leaves at once (the first must be reported); faults on .tag / .commandCode / .responseCode and every sixth other fault are also decoded through the hex and pcapng front-ends (same error, same number of events); successful responses decoded with reserved command codes (no layout): a value error naming the code, after events that are a prefix of the decode with the real code and account for every consumed byte; distinct = distinct (type/code, leaf path, perturbation) cases"
)
ASSUMPTIONS = ["pinned allowed sets; the allowed set of an error is compared by membership at the pinned interval end points +-1, not enumerated"]
KINDS = oracles.VALUE_KINDS
ANCHORS = probes.VALUE_RAISE[:1]


def plan(tier, seed):
    return _strict.plan_bases(tier)


def valid_set_mismatch(t, ref):
    """The error's allowed set must have the pinned membership at every pinned interval end point +-1."""
    if t.outcome[0] != "constraint" or t.outcome[1]["cls"] != "ValueConstraintViolatedError":
        return None
    if ref.outcome.kind == "unknown_cc":
        tn = "TPM_CC"
    elif ref.outcome.kind == "value":
        tn = ref.outcome.kw["tname"]
    else:
        return None
    iv = layout.pinned()["types"][tn]["valid"]
    vv = t.exc.constraint.valid_values
    probes_ = set()
    for a, b in iv:
        probes_.update((a - 1, a, b - 1, b))
    for v in sorted(probes_):
        try:
            got = v in vv
        except Exception as e:
            return f"membership test {v} in allowed set raised {type(e).__name__}"
        if got != R.in_intervals(v, iv):
            return f"allowed set of the error disagrees with the pinned set of {tn} at {v:#x}: {got}"
    return None


def run_shard(shard, rec):
    rng = random.Random(f"{shard.get('seed', 0)}:C04:{shard['name']}")
    thorough = shard.get("tier") == "thorough"
    with probes.Anchors(ANCHORS, rec):
        for base in _strict.base_cases(shard, rng):
            bref = base.ref()
            if bref.outcome.kind != "ok":
                if bref.outcome.kind in KINDS and base.origin.startswith("corpus"):
                    # captured packets carrying an out-of-range value are value cases in their own right
                    _strict.evaluate(base, rec, KINDS, iff_value=True)
                    rec.case(("corpus-bad", base.sig))
                continue
            rec.count("bases")
            if base.t == "Response" and len(base.d) > 10 and base.d[6:10] == b"\0\0\0\0":
                unknown_cc_responses(base, rec, rng)
            for fc in cases.value_faults(base, bref, rng, limit=None if thorough else 5, second=thorough):
                ref, t, kind = _strict.evaluate(fc, rec, KINDS, iff_value=True)
                rec.case(fc.sig, nontrivial=True)
                rec.count(f"perturb_{fc.fault.get('change', 'two')}")
                if fc.fault.get("field") == ".commandCode" and kind in KINDS:
                    rec.count("fault_on_commandCode")
                # the same faulted message through the front-ends (hex text, a capture): the verdict on a value does not depend
                # on the container the bytes came in
                if fc.t in ("Command", "Response") and (fc.fault.get("field") in (".tag", ".commandCode", ".responseCode") or rec.evaluations % 6 == 0):
                    from . import c15

                    n = rec.counters.get("front_end_runs", 0)
                    fe = ("hex", "pcapng")[n % 2]
                    cont = c15.hex_render(fc.d, rng)[0] if fe == "hex" else c15.pcap_render([fc.d], rng)[0]
                    t2 = TR.run(fc.t, fc.d, strict=True, cc=fc.cc, enc=fc.enc, front=c15.front(fe), container=cont)
                    rec.count("front_end_runs")
                    key = lambda o: (o[0],) + ((o[1]["cls"], o[1].get("cpath"), o[1].get("value")) if o[0] == "constraint" else ())
                    if key(t2.outcome) != key(t.outcome) or len(t2.events) != len(t.events):
                        rec.violation("front-end", f"{fe}:{t.okind()}", f"{fc.short()}\nthrough the {fe} front-end: {key(t2.outcome)} after {len(t2.events)} events; decoded directly: {key(t.outcome)} after {len(t.events)} events", dict(fc.replay(), front=fe))
                if kind in KINDS:
                    why = valid_set_mismatch(t, ref)
                    rec.count("allowed_sets_probed")
                    if why:
                        rec.violation("allowed-set", f"{ref.outcome.kw.get('tname', 'TPM_CC')}", f"{fc.short()}\n{why}", fc.replay())
                    rec.sample(dict(case=fc.short(), reference=kind, decoder=t.okind()), bucket="sample_rejected", cap=3)
                elif kind == "ok":
                    rec.count("valid_boundary_kept")
                    rec.sample(dict(case=fc.short(), reference=kind, decoder=t.okind()), bucket="sample_accepted", cap=2)


def unknown_cc_responses(base, rec, rng):
    """A successful response decoded with a command code that has no layout (reserved number): the layout of the body is
    unknowable, so strict mode must reject with a value error naming the code - after the events of every field it has
    consumed.  Oracle without a position of its own: the events must be a prefix of the events of the same bytes decoded
    with their real code (the header does not depend on the code), and emitted field bytes + remaining bytes = input."""
    from .. import trace as TR

    known = set(int(c) for c in layout.pinned()["command_codes"].values())
    good = TR.run(base.t, base.d, strict=True, cc=base.cc, enc=base.enc)
    if good.outcome[0] != "ok":
        return
    # the command code may be given as a TPM_CC value or as a plain number (what a transport layer has): same decode
    as_int = TR.run(base.t, base.d, strict=True, enc=base.enc, marshal_kwargs=dict(command_code=int(base.cc)))
    rec.count("command_code_given_as_int")
    if [(e.kind, e.path, e.tname, e.value) for e in as_int.events] != [(e.kind, e.path, e.tname, e.value) for e in good.events] or as_int.outcome[0] != "ok":
        rec.violation("unknown-cc-response", "code-as-int", f"{base.short()}\ndecoded with command_code={int(base.cc):#x} given as a plain int: {len(as_int.events)} events / {as_int.outcome[0]}, given as TPM_CC: {len(good.events)} events / ok",
                      dict(base.replay(), family="unknown-cc-response", real_cc=base.cc))
    for k, cc in enumerate(rng.sample([c for c in (0x123, 0x0, 0xFFFFFFFF, 0x11E, 0x1FF, 0x20000123, 0x7FFFFFFF) if c not in known], 2)):
        if k == 0:
            t = TR.run(base.t, base.d, strict=True, cc=cc, enc=base.enc)
        else:
            t = TR.run(base.t, base.d, strict=True, enc=base.enc, marshal_kwargs=dict(command_code=cc))  # plain number
        rec.count("unknown_cc_responses")
        rec.case(("unknown-cc-response", base.sig, cc), nontrivial=True)
        rep = dict(base.replay(), cc=cc, family="unknown-cc-response", real_cc=base.cc)
        o = t.outcome
        if o[0] != "constraint" or o[1]["cls"] != "ValueConstraintViolatedError" or o[1].get("tname") != "TPM_CC" or o[1].get("value") != cc:
            rec.violation("unknown-cc-response", "outcome", f"{base.short()}\ndecoded with the reserved command code {cc:#x}: expected ValueConstraintViolatedError(TPM_CC, {cc:#x}), got {o}", rep)
            continue
        sig = lambda es: [(e.kind, e.path, e.tname, e.value) for e in es]
        if sig(t.events) != sig(good.events)[: len(t.events)]:
            rec.violation("unknown-cc-response", "events-not-a-prefix", f"{base.short()}\ndecoded with the reserved command code {cc:#x}: events {t.events} are not a prefix of the events with the real code {good.events[:6]}", rep)
            continue
        shown = sum(len(e.chunk) for e in t.mevents if isinstance(e.chunk, bytes))
        rem = o[1].get("rem")
        if not isinstance(rem, bytes) or shown + len(rem) != len(base.d) or base.d[shown:] != rem:
            rec.violation("unknown-cc-response", "events-before", f"{base.short()}\ndecoded with the reserved command code {cc:#x}: {shown} bytes are shown in the {len(t.events)} events emitted before the error "
                                                                  f"({[TR.pstr(e.path) for e in t.events]}) and {len(rem) if isinstance(rem, bytes) else rem} bytes remain, the input has {len(base.d)}: a consumed field has no event", rep)


def finish(m, tier):
    inc = probes.missing(m, ANCHORS)
    if not m["counters"].get("ref_value"):
        inc.append("no case in which the reference expects a value error")
    if not m["counters"].get("valid_boundary_kept"):
        inc.append("no valid boundary value was kept")
    if not m["counters"].get("front_end_runs"):
        inc.append("no faulted message was decoded through a front-end")
    if not m["counters"].get("unknown_cc_responses"):
        inc.append("no successful response was decoded with a reserved command code")
    if not m["counters"].get("fault_on_commandCode"):
        inc.append("no reserved command code case")
    return dict(inconclusive=inc)


def replay(r, rec):
    if r.get("family") == "unknown-cc-response":
        base = cases.Case.from_replay(dict(r, cc=r["real_cc"]))
        unknown_cc_responses(base, rec, random.Random(0))
        return
    case = cases.Case.from_replay(r)
    ref, t, kind = _strict.evaluate(case, rec, KINDS, iff_value=True)
    if kind in KINDS:
        why = valid_set_mismatch(t, ref)
        if why:
            rec.violation("allowed-set", "replay", why, r)
