"""C20 - the layout tables are coherent and match the pinned TPM 2.0 layout.

Invariant at a quiescent point: after ``import tpmstream.spec`` the walker reflects over every live
table; coherence rules and equality with the pinned snapshot are checked exhaustively (finite space).
"""
import re

from .. import layout

PROPERTY = "C20"
LEVEL = "exploration"
RULE = (
    "in fresh interpreters with 6 (thorough 24) different string hash seeds: every live type (structures, the four area tables, frames, response-code name tables) is walked once after "
    "import; one evaluation per (type or table entry, coherence rule) plus one per compared snapshot node; the layout each of the 234 parameter areas takes under parameter encryption is derived and compared with the pinned fields (size-prefixed first parameter replaced by the opaque buffer); distinct = "
    "distinct (rule, type/entry) pairs; exhaustive over the finite tables; then the allowed set of every constrained primitive type is probed by membership at every interval end point (+-1) of its whole type family in three passes (name order, reverse, shuffled after a decode workload) and the walk is compared with the snapshot a second time"
)
ASSUMPTIONS = [
    "layout/pinned_layout.json is the trusted description of the wire layout (produced once by the walker, corrected "
    "for D1/D16, reviewed by hand)",
]

PREFIX = {
    "command_handles": "TPMS_COMMAND_HANDLES_",
    "command_params": "TPMS_COMMAND_PARAMS_",
    "response_handles": "TPMS_RESPONSE_HANDLES_",
    "response_params": "TPMS_RESPONSE_PARAMS_",
}


def plan(tier, seed):
    # the tables are built at import time: one fresh interpreter per string hash seed (set / dict-of-set iteration order at
    # import must not leak into the layout)
    n = 6 if tier == "quick" else 24
    return [dict(name=f"tables-hashseed{(int(seed) * 6 + k) % 4096}", hashseed=(int(seed) * 6 + k) % 4096) for k in range(n)]


def norm(s):
    return s.replace("_", "").upper()


def coherence(w, report, tick):
    """Coherence rules over a walked layout (same schema for live and pinned)."""
    T, A = w["types"], w["area_types"]
    cc_by_num = {str(v): k for k, v in w["command_codes"].items()}
    # R1: every command code has exactly one handle and one parameter layout per direction, named after it
    owners = {}
    for ccname, num in w["command_codes"].items():
        entry = w["areas"].get(str(num))
        for table, prefix in PREFIX.items():
            tick(("R1", ccname, table))
            if not entry or table not in entry:
                report("R1-missing", f"tables/{table}", f"command code {ccname} ({num:#x}) has no {table} layout")
                continue
            tn = entry[table]
            if not tn.startswith(prefix) or norm(tn[len(prefix):]) != norm(ccname):
                report("R1-name", f"tables/{table}/name", f"{table} layout of {ccname} is named {tn}, expected {prefix}{norm(ccname)}-like")
            owners.setdefault(tn, []).append((ccname, table))
            if tn not in A:
                report("R1-missing", f"tables/{table}", f"{tn} has no description")
    for tn, who in owners.items():
        tick(("R1-shared", tn))
        if len(who) > 1:
            report("R1-shared", "tables/shared", f"{tn} is the layout of several table entries: {who}")
    for c in w.get("conflicts", []):
        report("R1-shared", "tables/name-clash", c)
    for num in w["areas"]:
        tick(("R1-code", num))
        if num not in cc_by_num:
            report("R1-code", "tables/extra-code", f"area tables have an entry for {int(num):#x} which is not a command code")
    # R2: handle areas hold at most three 4-byte handles
    for num, entry in w["areas"].items():
        for table in ("command_handles", "response_handles"):
            tn = entry.get(table)
            d = A.get(tn)
            if not d:
                continue
            tick(("R2", tn))
            if d["kind"] != "struct" or len(d["fields"]) > 3:
                report("R2-count", "handles/count", f"{tn} has {len(d.get('fields', []))} fields")
            for fname, ft in d.get("fields", []):
                fd = T.get(ft)
                if not fd or fd["kind"] != "prim" or fd["width"] != 4 or not (ft == "TPM_HANDLE" or "TPM_HANDLE" in fd["bases"]):
                    report("R2-type", "handles/type", f"{tn}.{fname}: {ft} is not a 4-byte handle type")
    # R3..R5 over all structures
    for tn, d in list(T.items()) + list(A.items()):
        if d["kind"] != "struct":
            continue
        fl = d["fields"]
        for i, (fname, ft) in enumerate(fl):
            if ft is None:
                continue
            if ft.startswith("list["):
                tick(("R3", tn, fname))
                prev = T.get(fl[i - 1][1]) if i else None
                if not prev or prev["kind"] != "prim" or prev["signed"] or min(lo for lo, hi in prev["valid"]) < 0:
                    report("R3-count", "list/count", f"{tn}.{fname}: list is not directly preceded by an unsigned count")
            fd = T.get(ft)
            if fd and fd["kind"] == "union":
                tick(("R4", tn, fname))
                selname = (d.get("selectors") or {}).get(fname)
                names = [f[0] for f in fl[:i]]
                if selname is None or selname not in names:
                    report("R4-selector", "union/selector", f"{tn}.{fname}: no earlier selector field ({selname})")
                    continue
                sd = T.get(dict(map(tuple, fl))[selname])
                if not sd or sd["kind"] != "prim":
                    report("R4-selector", "union/selector", f"{tn}.{selname}: selector is not a primitive")
                    continue
                sel = fd["select"]
                members = {m[0]: m for m in fd["members"]}
                for lo, hi in sd["valid"]:
                    vals = range(lo, hi) if hi - lo <= (1 << 17) else (lo, lo + 1, hi - 2, hi - 1)
                    for v in vals:
                        tick(None)
                        if str(v) not in sel and "*" not in sel:
                            report("R4-unselected", "union/unselected", f"{tn}.{fname}: valid selector value {v:#x} of {selname} selects no member of {ft}")
                            break
                # R5: list-valued members reachable from a structure have a fixed length
                for mname, mt, ml in fd["members"]:
                    if mt and mt.startswith("list["):
                        tick(("R5", ft, mname))
                        if ml is None:
                            # reachable only if some valid selector value (or the wildcard) picks it
                            picked = any(mname in names_ for names_ in sel.values())
                            if picked:
                                report("R5-length", "union/list-length", f"{ft}.{mname}: list member without fixed length (used by {tn}.{fname})")
                for key, names_ in sel.items():
                    for n in names_:
                        if n not in members:
                            report("R4-member", "union/member", f"{ft}: selector {key} names unknown member {n}")


def run_shard(shard, rec):
    w = layout.walk()
    P = layout.pinned()

    def tick(sig):
        rec.case(sig, nontrivial=sig is not None)

    def report_live(rule, mech, msg):
        rec.violation(rule, mech, msg, dict(kind="coherence", message=msg))

    def report_pinned(rule, mech, msg):
        rec.inconclusive_because(f"pinned snapshot is itself incoherent ({rule}): {msg}")

    coherence(w, report_live, tick)
    coherence(P, report_pinned, lambda s: None)
    encrypted_layouts(P, rec)
    attribute_field_widths(P, rec)
    rec.count("types_walked", len(w["types"]))
    rec.count("area_types_walked", len(w["area_types"]))
    rec.count("command_codes", len(w["command_codes"]))

    # snapshot equality
    def count_nodes(x):
        if isinstance(x, dict):
            return 1 + sum(count_nodes(v) for v in x.values())
        if isinstance(x, list):
            return 1 + sum(count_nodes(v) for v in x)
        return 1

    n = count_nodes(P)
    rec.case(n=n)
    rec.count("snapshot_nodes_compared", n)
    for line in layout.diff(w, P):
        path = line.split(":", 1)[0]
        mech = "snapshot" + re.sub(r"\[\d+\]", "[]", path)
        rec.case(("diff", path))
        rec.violation("snapshot-diff", mech, line, dict(kind="diff", line=line))
    rec.count("walks", 1)
    after_use(rec, P, shard.get("tier", "quick"))
    for tn in ("TPMT_PUBLIC", "TPMU_HA", "TPM_HANDLE"):
        rec.sample({tn: w["types"][tn] if len(str(w["types"][tn])) < 400 else str(w["types"][tn])[:400]})


def encrypted_layouts(P, rec):
    """The layout a parameter area takes under parameter encryption is derived from its table entry: the pinned fields with
    a size-prefixed first parameter replaced by TPM2B_ENCRYPTED_PARAM, everything else unchanged (an area whose first
    parameter is not size-prefixed keeps its layout)."""
    import dataclasses

    from tpmstream.spec.commands import Command, Response

    for table_name, table in (("command_params", Command._type_maps["parameters"]), ("response_params", Response._type_maps["parameters"])):
        for cc, T in table.items():
            rec.case(("encrypted-layout", table_name, int(cc)))
            pinned = P["area_types"].get(T.__name__)
            if pinned is None or not hasattr(T, "encrypted"):
                continue
            exp = [list(f) for f in pinned["fields"]]
            if exp and exp[0][1].startswith("TPM2B"):
                exp[0] = [exp[0][0], "TPM2B_ENCRYPTED_PARAM"]
            try:
                E = T.encrypted()
                got = [[f.name, layout.tname(f.type)] for f in dataclasses.fields(E)]
            except Exception as e:
                rec.violation("encrypted-layout", f"tables/{table_name}:raises", f"{T.__name__}.encrypted() raises {type(e).__name__}: {e}", dict(kind="coherence", message=T.__name__))
                continue
            rec.count("encrypted_layouts_derived")
            if got != exp:
                rec.violation("encrypted-layout", f"tables/{table_name}", f"{T.__name__} (code {int(cc):#x}) under parameter encryption has fields {got}, the pinned fields give {exp}", dict(kind="coherence", message=T.__name__))


def attribute_field_widths(P, rec):
    """The width and position of an attribute field is what its accessor returns for the all-ones word, the field's own
    mask and each single bit of it - compared with the pinned masks (a mask table alone does not say how a field is read)."""
    from .. import trace as TR

    for tn, d in sorted(P["types"].items()):
        if d["kind"] != "prim" or "bits" not in d:
            continue
        T = TR.type_by_name(tn)
        w = 8 * d["width"]
        for name, mask in d["bits"].items():
            if mask <= 0:
                continue
            low = (mask & -mask).bit_length() - 1
            for v in {(1 << w) - 1, mask} | {1 << b for b in range(w) if (mask >> b) & 1}:
                rec.case(("field-width", tn, name, v))
                try:
                    got = getattr(T(v), name)
                except Exception as e:
                    rec.violation("field-width", f"{tn}.{name}:raises", f"{tn}({v:#x}).{name} raises {type(e).__name__}: {e}", dict(kind="coherence", message=tn))
                    break
                if got != (v & mask) >> low:
                    rec.violation("field-width", f"{tn}.{name}", f"{tn}({v:#x}).{name} = {got!r}; the pinned field {mask:#x} (bits {mask.bit_length() - 1}:{low}) gives {(v & mask) >> low:#x}", dict(kind="coherence", message=tn))
                    break
        rec.count("attribute_types_read")


def after_use(rec, P, tier):
    """Second quiescent point: the tables after they have been used.  The allowed sets are probed by membership (the way the
    decoder consults them) for every constrained primitive type at every interval end point of its whole family, in two
    orders of the types and twice, a decode workload runs in between, and the walk is compared with the snapshot again."""
    import random

    from .. import cases, gen, history
    from .. import refmodel as R
    from .. import trace as TR

    prim = {n: d for n, d in P["types"].items() if d["kind"] == "prim"}
    fam = {}
    for n, d in prim.items():
        bases = d["bases"]
        root = bases[-2] if len(bases) >= 2 else (bases[-1] if bases else n)
        fam.setdefault((root, d["width"]), []).append(n)
    cands = {}
    for key, members in fam.items():
        pts = set()
        for n in members:
            for a, b in prim[n]["valid"]:
                pts.update((a - 1, a, a + 1, b - 2, b - 1, b))
        for n in members:
            lo, hi = (-(1 << (8 * prim[n]["width"] - 1)), 1 << (8 * prim[n]["width"] - 1)) if prim[n]["signed"] else (0, 1 << (8 * prim[n]["width"]))
            cands[n] = sorted(p for p in pts if lo <= p < hi)
    constrained = sorted(n for n, d in prim.items() if cases.constrained(d))

    def probe(order, label):
        for n in order:
            T = TR.type_by_name(n)
            d = prim[n]
            for c in cands[n]:
                exp = R.in_intervals(c, d["valid"])
                try:
                    got1 = T(c).is_valid()
                    got2 = c in T._valid_values
                except Exception as e:
                    rec.violation("membership", f"raises:{n}", f"{n}: membership test of {c:#x} raises {type(e).__name__}: {e} ({label})", dict(kind="after-use"))
                    break
                rec.case(("member", n, c, label))
                if bool(got1) != exp or bool(got2) != exp:
                    rec.violation("membership", f"{n}", f"{n}: {c:#x} is {'in' if exp else 'not in'} the pinned allowed set, the live type says is_valid()={got1}, "
                                                       f"in _valid_values={got2} ({label})", dict(kind="after-use"))
                    break
        rec.count("membership_probe_passes")

    probe(constrained, "first pass, types in name order")
    probe(constrained[::-1], "second pass, reverse order")
    # use: decode a workload (well-formed messages of many codes, hostile scenes)
    rng = random.Random(20)
    ccs = gen.ccs()
    n_msgs = 0
    for c, r in cases.msg_cases(ccs[:: (6 if tier == "quick" else 1)], rng, 1, configs=cases.CONFIGS[:2]):
        for case in (c, r):
            TR.run(case.t, case.d, strict=True, cc=case.cc, enc=case.enc)
            n_msgs += 1
    history.aborted_scenes(rec)
    rec.count("messages_decoded_between_walks", n_msgs)
    shuffled = list(constrained)
    rng.shuffle(shuffled)
    probe(shuffled, "third pass, after the decode workload, shuffled order")
    w2 = layout.walk()
    for line in layout.diff(w2, P):
        path = line.split(":", 1)[0]
        rec.violation("snapshot-diff-after-use", "snapshot" + re.sub(r"\[\d+\]", "[]", path), line + " (walk repeated after the tables were used)", dict(kind="after-use"))
    rec.count("walks", 1)


def finish(m, tier):
    inc = []
    if m["counters"].get("types_walked", 0) < 200 or m["counters"].get("command_codes", 0) < 100:
        inc.append("walker saw too few types/codes")
    if not m["counters"].get("encrypted_layouts_derived"):
        inc.append("no encrypted parameter layout was derived")
    if m["counters"].get("membership_probe_passes", 0) < 3 or m["counters"].get("walks", 0) < 2:
        inc.append("the after-use phase (membership probes, second walk) did not complete")
    return dict(exhaustive=True, inconclusive=inc)


def replay(case, rec):
    run_shard(dict(name="replay"), rec)
