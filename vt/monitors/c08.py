"""C08 - warn mode reports problems as warnings and keeps decoding.

Monitors on the warn-mode boundary trace:
  M1  no abort: the generator finishes, or raises ValueConstraintViolatedError for an unknown command code /
      a selector value that selects no member; anything else escaping is a violation
  M2  tiling (vt/tiling.py, model-free): fields tile the input, recovery resumes at the declared region end,
      every byte is shown, skipped as the reported tail of a region, or listed as surplus
  M3  value-only equivalence: when every warning is a value warning the events equal the reference's lenient
      interpretation with exactly one warning directly after each offending event
  M4  constraint shadow (hooked state, diagnostic): names the first counter that drifted; it is the
      *mechanism* key of an M1/M2 violation
"""
import random

from .. import cases, cmp, corpus, gen, layout, probes, tiling
from .. import refmodel as R
from .. import trace as TR
from . import _strict, c06

PROPERTY = "C08"
LEVEL = "fault_enumeration"
RULE = (
    "warn-mode decodes of: size faults (every size/count field -k/+k/0/max; thorough: pairs), value faults, truncations, "
    "suffixes, all small-alphabet strings for the nested size-prefixed types, mutated messages, and streams with one "
    "malformed message in the middle (so that resuming at the declared end decides where the next message starts); "
    "distinct = distinct (type/code, fault, warning-class sequence) cases, non-trivial when at least one warning was emitted"
)
ASSUMPTIONS = [
    "which field is a size field is decided from the declared type of the parent event (TPM2B first field; commandSize/authSize under Command; responseSize/parameterSize under Response)",
    "diagnostic rules (counted-so-far figure of later warnings, unreported short regions, shadow drift) are evidence only",
]
ANCHORS = probes.WARN_RECOVERY

_shadow = None


def shadow():
    global _shadow
    if _shadow is None:
        _shadow = tiling.Shadow()
        _shadow.install()
    return _shadow


def plan(tier, seed):
    q = tier == "quick"
    shards = _strict.plan_bases(tier, quick_msgs_cfgs=2, thorough_cfgs=6, struct_per_type=(1, 3))
    L, parts = (4, 3) if q else (6, 12)
    for p in range(parts):
        shards.append(dict(name=f"small{p}", kind="small", L=L, part=p, parts=parts))
    n = 3 if q else 12
    for i in range(n):
        # whole streams as bases of the fault enumeration: faults in the first, a middle and the very last message
        shards.append(dict(name=f"streambase{i}", kind="stream", n=4 if q else 8, max_pairs=3))
        shards.append(dict(name=f"mutate{i}", kind="mutate", n=300 if q else 6000, start=i, step=n))
        shards.append(dict(name=f"stream{i}", kind="badstream", n=25 if q else 400))
        shards.append(dict(name=f"random{i}", kind="random", n=400 if q else 8000, start=i, step=n))
    return shards


def allowed_abort(t, til):
    """M1: is the escaping exception one of the two documented aborts?"""
    if t.outcome[0] != "constraint":
        return False
    e = t.outcome[1]
    if e["cls"] != "ValueConstraintViolatedError":
        return False
    P = layout.pinned()
    cp = e.get("cpath")
    if not cp:
        return False
    name = cp[-1][0]
    parent = til.ptypes.get(cp[:-1])
    if parent in ("Command", "Response") and name == "commandCode" and len(cp) == 2:
        # unknown command code; for a response also a missing one (its command was abandoned before the code was read)
        if e["value"] is None:
            return parent == "Response"
        return not R.in_intervals(e["value"], P["types"]["TPM_CC"]["valid"]) or str(e["value"]) not in P["areas"]
    d = P["types"].get(parent) or P["area_types"].get(parent)
    if d and d["kind"] == "struct":
        sels = d.get("selectors") or {}
        ft = dict(map(tuple, d["fields"]))
        for ufield, sfield in sels.items():
            if sfield == name:
                ud = P["types"][ft[ufield]]
                if str(e["value"]) not in ud["select"] and "*" not in ud["select"]:
                    return True
    return False


def warn_sig(t):
    out = []
    for w in t.warnings:
        c = w.err["cls"]
        if not out or out[-1] != c:
            out.append(c)
    return tuple(out[:6])


def check(case, rec, T=None, P=None):
    sh = shadow()
    sh.reset()
    rooted = rec.evaluations % 5 == 3
    t = TR.run(T or case.t, case.d, strict=False, cc=case.cc, enc=case.enc, rooted=rooted)
    if rooted:
        rec.count("rooted_decodes")
        if t.root_escapes:
            rec.violation("root-path", "path-outside-root", f"{case.short()}\ndecoded with root_path='.log.msg[2]': {TR.pstr(t.root_escapes[0])} does not lie under that root", case.replay())
    til = tiling.Tiling(case.d)
    for ev in t.events:
        til.on_event(ev)
    ended = t.outcome[0] == "ok"
    til.finish(ended)
    ws = warn_sig(t)
    rec.case((case.sig, ws, t.okind()), nontrivial=bool(t.warnings))
    for w in t.warnings:
        rec.count(f"warning_{w.err['cls']}")
    rec.count("regions_opened", til.stats["regions"])
    rec.count("regions_reported", til.stats["reported"])
    rec.count("regions_abandoned", til.stats["abandoned"])
    rec.count("bytes_skipped", til.stats["skipped"])
    rec.count("bytes_padded", til.stats["padded"])
    rec.count("shadow_comparisons", sh.comparisons)
    sh.comparisons = 0
    drift = sh.first_drift
    mech_tail = f"{drift[0]}@{drift[1]}" if drift else "no-drift"
    if drift:
        rec.count(f"shadow_first_drift_{drift[0]}_{drift[1]}")
    out = []
    # M1
    if not ended:
        if t.outcome[0] == "capped":
            out.append(("M1-terminate", "step-cap", "warn-mode decode exceeded the step cap"))
        elif allowed_abort(t, til):
            rec.count("documented_abort")
        elif t.outcome[0] == "internal":
            out.append(("M1-abort", f"{t.outcome[1]}|{mech_tail}", f"warn mode aborted with an internal error: {t.outcome[1]}: {t.outcome[2]}"))
        else:
            desc = t.outcome[1]["cls"] if t.outcome[0] == "constraint" else t.outcome[0]
            out.append(("M1-abort", f"{desc}-escapes|{mech_tail}", f"warn mode raised {t.outcome} instead of delivering a warning"))
    # M2
    seen = set()
    for rule, msg in til.viol:
        if rule in seen:
            continue
        seen.add(rule)
        out.append((f"M2-{rule}", f"{rule}|{first_recovery(t)}|{mech_tail}", msg))
    for d in til.diag[:3]:
        rec.count("diag_" + d.split(" ")[0])
        rec.sample(dict(case=case.short(), diagnostic=d), bucket="diagnostic", cap=3)
    # M3
    if ended and t.warnings and all(w.err["cls"] == "ValueConstraintViolatedError" for w in t.warnings):
        ref = R.decode(case.t, case.d, cc=case.cc, enc=case.enc, strict=False, P=P)
        if ref.outcome.kind == "ok":
            rec.count("m3_evaluated")
            m = cmp.ev_mismatch(ref.events, t.mevents)
            if m:
                out.append(("M3-events", f"lenient:{m['what']}", f"value-only case: event #{m['index']}: {m['what']}: decoder {m['got']} reference {m['expected']}"))
            else:
                # one warning directly after each offending event, none elsewhere
                bad = {i for i, e in enumerate(ref.events) if e.bad}
                mi = -1
                prev_was_bad = False
                for ev in t.events:
                    if ev.kind == "M":
                        mi += 1
                        if prev_was_bad:
                            out.append(("M3-warning", "missing-warning", f"no warning directly after offending event #{mi - 1}"))
                            break
                        prev_was_bad = mi in bad
                    else:
                        if not prev_was_bad:
                            out.append(("M3-warning", "stray-warning", f"warning {ev!r} does not directly follow an offending event"))
                            break
                        if ev.err.get("cpath") != t.mevents[mi].path or ev.err.get("value") != t.mevents[mi].value:
                            out.append(("M3-warning", "wrong-warning", f"warning {ev!r} is not about the preceding event {t.mevents[mi]!r}"))
                            break
                        prev_was_bad = False
                else:
                    if prev_was_bad:
                        out.append(("M3-warning", "missing-warning", "no warning after the last offending event"))
    for rule, mech, msg in out:
        rec.violation(rule, mech, f"{case.short()}\nwarnings: {[w.err['cls'] for w in t.warnings][:8]}\n{msg}\nshadow: {drift}", case.replay())
    if t.warnings:
        rec.sample(dict(case=case.short(), warnings=[w.err["str"][:100] for w in t.warnings][:3], outcome=t.okind()), bucket="sample_" + (ws[0] if ws else "none"), cap=1)
    return t, til


def first_recovery(t):
    """Kind of the first size recovery in the trace: (warning class, owner kind)."""
    for w in t.warnings:
        c = w.err["cls"]
        if c in ("SizeConstraintExceededError", "SizeConstraintSubceededError"):
            cp = w.err.get("cpath") or ()
            name = cp[-1][0] if cp else "?"
            owner = name if name in ("commandSize", "responseSize", "authSize", "parameterSize") else "tpm2b"
            return f"{'exceeded' if 'Exceeded' in c else 'subceeded'}:{owner}"
    return "no-recovery"


def bad_streams(rng, n):
    """Streams of 2-4 pairs in which exactly one message carries a size fault."""
    n_streams = 0
    for s, msgs in cases.stream_cases(rng, n, max_pairs=3):
        if len(msgs) < 3:
            continue
        n_streams += 1
        k = rng.randrange(len(msgs))  # any message, the last one included (what follows a fault there is the end of the input)
        m = msgs[k]
        mref = m.ref()
        if mref.outcome.kind != "ok":
            continue
        faults = list(cases.size_faults(m, mref, ks=(1, 3)))
        if not faults:
            continue
        f = rng.choice(faults)
        if rng.random() < 0.35:
            # two cooperating faults (a region and one nested in it) inside a stream: what follows decides where decoding resumed
            pairs = list(cases.nested_pair_faults(m, mref, rng, limit=2, ks=(1, 16, 40)))
            if pairs:
                f = rng.choice(pairs)
                f.fault = dict(kind="size", field=f.fault["outer"] + "+" + f.fault["inner"], fkind="nested-pair", change=f.fault["change"])
                f.sig = ("size", m.t, m.cc, "nested-pair", f.fault["field"], f.fault["change"])
        if rng.random() < 0.3:
            # an out-of-range value instead: in the last constrained field of the message
            vf = list(cases.value_faults(m, mref, rng, limit=None))
            if vf:
                f = vf[-1 - rng.randrange(min(3, len(vf)))]
                f.fault = dict(kind="size", field=f.fault["field"], fkind="value", change=f.fault["change"])
                f.sig = ("size", m.t, m.cc, "value", f.fault["field"], f.fault["change"])
        # every few streams: a command that is abandoned before / at its commandCode (its response has no code to go by)
        cmds = [i for i, x in enumerate(msgs[:-1]) if x.t == "Command"]
        # ... preferably one that is answered by a successful response (only that one needs the code's layout)
        answered = [i for i in cmds if msgs[i + 1].t == "Response" and msgs[i + 1].d[6:10] == b"\0\0\0\0" and len(msgs[i + 1].d) > 10]
        if cmds and n_streams % 3 == 1:
            k = rng.choice(answered or cmds)
            m = msgs[k]
            v = (0, 2, 6, 9)[(n_streams // 3) % 4]
            f = cases.Case("Command", m.d[:2] + v.to_bytes(4, "big") + m.d[6:], origin="bad-stream",
                           fault=dict(kind="size", field=".commandSize", fkind="message", change=f"={v}", old=len(m.d), new=v), sig=("size", "Command", None, "message", ".commandSize", f"={v}"))
        data = b"".join(x.d for x in msgs[:k]) + f.d + b"".join(x.d for x in msgs[k + 1 :])
        yield cases.Case("CommandResponseStream", data, origin="bad-stream",
                         fault=dict(kind="stream-size", message=k, of=len(msgs), **{kk: vv for kk, vv in f.fault.items() if kk != "kind"}),
                         sig=("badstream", k, len(msgs), f.sig[3:]))


def run_shard(shard, rec):
    rng = random.Random(f"{shard.get('seed', 0)}:C08:{shard['name']}")
    thorough = shard.get("tier") == "thorough"
    k = shard["kind"]
    with probes.Anchors(ANCHORS, rec):
        if k == "small":
            for case, T, P in _strict.small_cases(shard["L"], shard["part"], shard["parts"]):
                check(case, rec, T, P)
        elif k == "mutate":
            pk = corpus.packets()
            pool = [(b, i % 2) for i, (_f, _i, b) in enumerate(pk)][shard["start"] :: shard["step"] * 2]
            plain = [b for b, _ in pool]
            ccs = gen.ccs()
            for i in range(shard["n"]):
                b, is_rsp = rng.choice(pool)
                m = c06.mutate(rng, b, plain)
                if is_rsp:
                    check(cases.Case("Response", m, cc=rng.choice(ccs), enc=rng.choice((None, None, True)), origin="mutated", sig=("mut",)), rec)
                else:
                    check(cases.Case("Command", m, origin="mutated", sig=("mut",)), rec)
        elif k == "random":
            # random bytes and corpus packets decoded as the wrong type, all non-union types, warn mode
            types = cases.non_union_types()
            ccs = gen.ccs()
            prs = corpus.pairs()[shard["start"] :: shard["step"]]
            for i in range(shard["n"]):
                r = rng.random()
                if r < 0.5:
                    nb = rng.choice((0, 1, 2, 3, 4, 6, 10, 12, 16, 24, 40))
                    data = bytes(rng.choice((0, 0, 1, 2, 0x80, 0xFF, rng.randrange(256))) for _ in range(nb))
                    tn = rng.choice(types)
                    check(cases.Case(tn, data, origin="random", sig=("rnd", tn, nb)), rec)
                elif r < 0.8:
                    _f, c, rsp = rng.choice(prs)
                    tn = rng.choice(types)
                    check(cases.Case(tn, rng.choice((c, rsp)), origin="wrong-type", sig=("wt", tn)), rec)
                else:
                    _f, c, rsp = rng.choice(prs)
                    check(cases.Case("Response", rsp, cc=rng.choice(ccs), enc=rng.choice((None, True)), origin="wrong-code", sig=("wc",)), rec)
        elif k == "badstream":
            for case in bad_streams(rng, shard["n"]):
                check(case, rec)
        else:
            for base in _strict.base_cases(shard, rng):
                bref = base.ref()
                if bref.outcome.kind != "ok":
                    check(base, rec)
                    continue
                lim = None if thorough else 4
                faults = list(cases.size_faults(base, bref, ks=(1, 2, 5), limit=lim, rng=rng))
                for fc in faults:
                    check(fc, rec)
                for fc in cases.nested_pair_faults(base, bref, rng, limit=None if thorough else 2, ks=(1, 5, 64) if thorough else (5, 64)):
                    check(fc, rec)
                    # ... and with a trailer longer than any +k: it must come out as surplus (or be decoded), never be swallowed
                    check(cases.Case(fc.t, fc.d + bytes(range(0x11, 0x71)), fc.cc, fc.enc, origin=fc.origin, fault=dict(fc.fault, trailer=96), sig=fc.sig + ("trailer",)), rec)
                    rec.count("nested_pair_faults")
                for fc in cases.value_faults(base, bref, rng, limit=lim if lim is None else 3, second=True):
                    check(fc, rec)
                cuts = list(cases.cut_faults(base))
                for fc in (cuts if thorough else rng.sample(cuts, min(4, len(cuts)))):
                    check(fc, rec)
                for fc in cases.suffix_faults(base, rng):
                    check(fc, rec)
                if thorough and len(faults) >= 2:
                    for _ in range(3):
                        f1, f2 = rng.sample(faults, 2)
                        d = bytearray(f1.d)
                        for i, (a, b) in enumerate(zip(base.d, f2.d)):
                            if a != b:
                                d[i] = b
                        check(cases.Case(base.t, bytes(d), base.cc, base.enc, origin=base.origin, fault=dict(kind="size2", fields=[f1.fault, f2.fault]),
                                         sig=("size2", base.t, base.cc, f1.sig[3:], f2.sig[3:])), rec)


def finish(m, tier):
    inc = probes.missing(m, ANCHORS)
    for k in ("warning_SizeConstraintExceededError", "warning_SizeConstraintSubceededError", "warning_AnticipatedSizeConstraintExceededError",
              "warning_ValueConstraintViolatedError", "warning_InputStreamBytesDepletedError", "warning_InputStreamSuperfluousBytesError",
              "m3_evaluated", "documented_abort", "shadow_comparisons"):
        if not m["counters"].get(k):
            inc.append(f"no case of {k}")
    return dict(inconclusive=inc)


def replay(r, rec):
    case = cases.Case.from_replay(r)
    T = P = None
    if case.origin == "small":
        classes, P = _strict.synthetic()
        T = classes.get(case.t)
    check(case, rec, T, P)
