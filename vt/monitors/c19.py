"""C19 - the command line is a faithful front-end to the decoder.

Process-level observer: ``python -m tpmstream ...`` runs as a subprocess on generated files; stdout / stderr /
exit status are compared with what the library produces in-process for the same bytes, format, type and
command code (differential), and with the reference for "decodes strictly".
"""
import os
import random
import re
import shutil
import subprocess
import sys
import tempfile

from .. import cases, env, gen, layout
from .. import refmodel as R
from .. import trace as TR
from . import c15

PROPERTY = "C19"
LEVEL = "exploration"
RULE = (
    "generated streams / single messages / structures written as files in every input format (binary, hex, pcapng, "
    "swtpm-log, auto) and converted with every output format (pretty, events, binary) as a stream (the default type left out or named explicitly), with --type T and with "
    "--type Response --command C; stdin and several files (split at message boundaries, between a command and its response, inside a message; with --in binary and with auto-detection); malformed files (warn-mode output); misspelt type / command "
    "names and Response without a command; command names (one per first letter + a seed-dependent window; thorough all 117) each accepted for a failed response and refused when the first letter is doubled / dropped or '_', '2', 'x' is added; `type` on single messages and on successful responses consisting of one handle (values from every handle range in turn); `example` for command codes and type names; one "
    "evaluation = one CLI invocation; distinct = distinct (sub-command, input format, output format, type choice, outcome)"
)
ASSUMPTIONS = [
    "--type X with the default --in auto is refused by design (RuntimeError) and not part of the property",
    "when the library itself raises its documented warn-mode ValueConstraintViolatedError only the printed prefix is compared, not the status",
    "lines are compared with colour codes stripped and blanks collapsed",
]
ANSI = re.compile(r"\x1b\[[0-9;]*m")


def norm(s):
    return " ".join(ANSI.sub("", s).split())


def plan(tier, seed):
    q = tier == "quick"
    shards = []
    n = 8 if q else 16
    for i in range(n):
        shards.append(dict(name=f"convert{i}", kind="convert", n=2 if q else 30, offset=i * 3))
    for i in range(2 if q else 8):
        shards.append(dict(name=f"refuse{i}", kind="refuse", n=3 if q else 6))
        shards.append(dict(name=f"type{i}", kind="type", n=4 if q else 14, start=i))
    ccs = gen.ccs()
    if q:
        ex = [[ccs[3]], [ccs[40]], [ccs[77]], ["TPM_ST"], ["TPMS_AUTH_COMMAND"]]  # TPM_ST has derived spec types
    else:
        names = ["TPMS_AUTH_COMMAND", "TPM2B_PUBLIC", "TPMT_HA", "TPML_PCR_SELECTION", "TPMA_SESSION", "TPM2B_DIGEST", "TPMS_CAPABILITY_DATA",
                 "TPMT_TK_CREATION", "TPMI_ALG_HASH", "TPM_HANDLE", "TPMS_ATTEST", "TPM2B_NONCE", "TPM_ST", "TPM_ALG_ID", "UINT16", "TPM_ALG"]
        ex = [ccs[i::16] for i in range(16)] + [names[i::4] for i in range(4)]
    for i, group in enumerate(ex):
        shards.append(dict(name=f"example{i}", kind="example", items=group))
    # command names: quick = one name per distinct first letter plus a window that moves with the seed, thorough = all
    names = sorted(layout.pinned()["command_codes"])
    if q:
        first = {}
        for nme in names:
            first.setdefault(nme[0], nme)
        rest = [nme for nme in names if nme not in first.values()]
        k = (int(seed) * 7) % max(1, len(rest))
        pick = sorted(first.values()) + (rest + rest)[k : k + 6]
        nsh = 4
    else:
        pick = names
        nsh = 8
    for i in range(nsh):
        shards.append(dict(name=f"names{i}", kind="names", names=pick[i::nsh], all_variants=not q))
    return shards


def cli(args, stdin=None, timeout=180):
    r = subprocess.run([env.PYTHON, "-m", "tpmstream"] + args, capture_output=True, input=stdin, timeout=timeout, env=env.child_env(), cwd=tempfile.gettempdir())
    return r.returncode, r.stdout.decode(errors="replace"), r.stderr.decode(errors="replace")


def front(fmt):
    from tpmstream.io.auto import Auto
    from tpmstream.io.binary import Binary
    from tpmstream.io.hex import Hex
    from tpmstream.io.pcapng import Pcapng
    from tpmstream.io.swtpm_log import SWTPMLog

    return {"auto": Auto, "binary": Binary, "hex": Hex, "pcapng": Pcapng, "swtpm-log": SWTPMLog}[fmt]


def library_lines(fmt_in, fmt_out, tpm_type, container, cc=None):
    """(lines, completed) of the library for the same input; completed False when it raises its documented error."""
    from tpmstream.io.binary import Binary
    from tpmstream.io.events import Events
    from tpmstream.io.pretty import Pretty

    out = {"pretty": Pretty, "events": Events, "binary": Binary}[fmt_out]
    kw = dict(tpm_type=TR.type_by_name(tpm_type), buffer=container, abort_on_error=False)
    kw["command_code"] = TR.cc_obj(cc) if cc is not None else None
    lines = []
    completed = True
    try:
        for line in out.unmarshal(front(fmt_in).marshal(**kw)):
            lines.append(line)
    except Exception as e:
        completed = type(e).__name__
    return lines, completed


def compare_convert(rec, label, args, fmt_in, fmt_out, tpm_type, container, cc, replay, stdin=None):
    rc, so, se = cli(args, stdin=stdin)
    lines, completed = library_lines(fmt_in, fmt_out, tpm_type, container, cc)
    rec.case(("convert", fmt_in, fmt_out, tpm_type if tpm_type in ("CommandResponseStream", "Response", "Command") else "T", label, completed is True, rc == 0), nontrivial=True)
    rec.count(f"convert_in_{fmt_in}")
    rec.count(f"convert_out_{fmt_out}")
    if fmt_out == "binary":
        want = b"".join(lines).hex()
        got = "".join(so.split())
        ok = got == want if completed is True else want.startswith(got) or got.startswith(want)
        if not ok:
            rec.violation("convert-output", f"binary:{fmt_in}", f"{label}: tpmstream {' '.join(args)}\n--out binary printed {got[:120]} expected {want[:120]}", replay)
    else:
        got = [norm(l) for l in so.splitlines()]
        want = [norm(l) for l in lines]
        if completed is True:
            ok = got == want
        else:
            ok = got[: len(want)] == want[: len(got)] and len(got) <= len(want) + 1
        if not ok:
            i = next((i for i, (a, b) in enumerate(zip(got, want)) if a != b), min(len(got), len(want)))
            rec.violation("convert-output", f"{fmt_out}:{fmt_in}", f"{label}: tpmstream {' '.join(args)}\nline #{i}: CLI {got[i] if i < len(got) else None!r} library {want[i] if i < len(want) else None!r} ({len(got)} vs {len(want)} lines)\nstderr: {se[-300:]}", replay)
    if completed is True and rc != 0:
        rec.violation("convert-status", f"status:{rc}", f"{label}: tpmstream {' '.join(args)}\nexit status {rc} although the library decode completes\nstderr: {se[-400:]}", replay)
    if completed is not True:
        rec.count(f"library_raised_{completed}")


def write(tmp, name, data):
    p = os.path.join(tmp, name)
    with open(p, "wb") as f:
        f.write(data)
    return p


def convert_shard(shard, rec, rng, tmp):
    k = 0
    for s, msgs in cases.stream_cases(rng, shard["n"], max_pairs=3):
        k += 1
        mb = [m.d for m in msgs]
        carried = b"".join(mb)
        containers = {
            "binary": carried,
            "hex": c15.hex_render(carried, rng, lead=False, split_first=False)[0],
            "swtpm-log": c15.swtpm_render(mb, rng)[0],
        }
        pc, pcarried = c15.pcap_render(mb, rng)
        containers["pcapng"] = pc
        fmt_in = ("binary", "hex", "pcapng", "swtpm-log", "auto-binary", "auto-hex", "auto-pcapng")[(shard.get("offset", 0) + k) % 7]
        for fmt_out in ("pretty", "events", "binary"):
            f_in = fmt_in
            src = fmt_in
            if fmt_in.startswith("auto-"):
                src, f_in = fmt_in[5:], "auto"
            cont = containers[src]
            p = write(tmp, f"s{k}.{src}", cont)
            # the default type may also be named explicitly (documented together with --in=auto); same result
            explicit = ["--type", "CommandResponseStream"] if fmt_out != "events" else []
            if explicit:
                rec.count(f"explicit_stream_type_{f_in}")
            args = ["convert", "--out", fmt_out] + explicit + ([] if (f_in == "auto" and rng.random() < 0.5) else ["--in", f_in]) + [p]
            compare_convert(rec, f"stream/{fmt_in}", args, f_in, fmt_out, "CommandResponseStream", cont, None,
                            dict(kind="convert", args=args[:-1], fmt_in=f_in, fmt_out=fmt_out, t="CommandResponseStream", container=cont.hex()))
        # single message with --type / --command
        m = rng.choice(msgs)
        fmt_out = rng.choice(("pretty", "events", "binary"))
        src = rng.choice(("binary", "hex"))
        cont = m.d if src == "binary" else c15.hex_render(m.d, rng, lead=False, split_first=False)[0]
        p = write(tmp, f"m{k}.{src}", cont)
        if m.t == "Response":
            ccname = cc_name(m.cc)
            args = ["convert", "--in", src, "--out", fmt_out, "--type", "Response", "--command", ccname, p]
            # the CLI cannot be told the encryption flag: only compare when none is needed
            if not m.enc:
                compare_convert(rec, "single-response", args, src, fmt_out, "Response", cont, m.cc, dict(kind="convert", args=args[:-1], fmt_in=src, fmt_out=fmt_out, t="Response", cc=m.cc, container=cont.hex()))
        else:
            args = ["convert", "--in", src, "--out", fmt_out, "--type", "Command", p]
            compare_convert(rec, "single-command", args, src, fmt_out, "Command", cont, None, dict(kind="convert", args=args[:-1], fmt_in=src, fmt_out=fmt_out, t="Command", container=cont.hex()))
        # a structure
        g = gen.Gen(rng)
        tn = rng.choice(cases.non_union_types())
        if tn != "TPM2B_ENCRYPTED_PARAM":
            b, _ev = g.build(tn)
            p = write(tmp, f"t{k}.bin", b)
            args = ["convert", "--in", "binary", "--out", fmt_out, "--type", tn, p]
            compare_convert(rec, "structure", args, "binary", fmt_out, tn, b, None, dict(kind="convert", args=args[:-1], fmt_in="binary", fmt_out=fmt_out, t=tn, container=b.hex()))
        # malformed file: warn-mode output
        bad = bytearray(carried)
        if bad:
            bad[rng.randrange(len(bad))] ^= rng.choice((1, 0x80, 0xFF))
            p = write(tmp, f"b{k}.bin", bytes(bad))
            fo = rng.choice(("pretty", "events"))
            args = ["convert", "--in", "binary", "--out", fo, p]
            compare_convert(rec, "malformed-stream", args, "binary", fo, "CommandResponseStream", bytes(bad), None, dict(kind="convert", args=args[:-1], fmt_in="binary", fmt_out=fo, t="CommandResponseStream", container=bytes(bad).hex()))
        # stdin and several files
        if k % 2 == 0:
            args = ["convert", "--in", "binary", "--out", "pretty", "-"]
            compare_convert(rec, "stdin", args, "binary", "pretty", "CommandResponseStream", carried, None, dict(kind="convert", args=args, fmt_in="binary", fmt_out="pretty", t="CommandResponseStream", container=carried.hex(), stdin=True), stdin=carried)
        elif len(mb) >= 2:
            half = len(mb) // 2
            p1, p2 = write(tmp, f"p{k}a.bin", b"".join(mb[:half])), write(tmp, f"p{k}b.bin", b"".join(mb[half:]))
            pe = write(tmp, f"p{k}e.bin", b"")
            files = [[p1, p2], [p1, pe, p2], [pe, p1, p2]][(shard.get("offset", 0) + k) % 3]
            args = ["convert", "--in", "binary", "--out", "events"] + files
            rec.count("several_files_with_empty" if pe in files else "several_files")
            compare_convert(rec, "two-files", args, "binary", "events", "CommandResponseStream", carried, None, dict(kind="convert", args=["convert", "--in", "binary", "--out", "events"], fmt_in="binary", fmt_out="events", t="CommandResponseStream", container=carried.hex()))
            # the file boundary need not be a message boundary, and the format may be left to auto-detection: one stream
            # over all files - between a command and its response (the response needs the command's code) or inside a message
            for cut, label in ((len(mb[0]), "files-cut-after-command"), (len(mb[0]) + min(7, len(mb[1]) - 1), "files-cut-inside-message")):
                q1, q2 = write(tmp, f"q{k}a.bin", carried[:cut]), write(tmp, f"q{k}b.bin", carried[cut:])
                fo = "binary" if label.endswith("message") else "events"
                for pre, fi in ((["convert", "--out", fo], "auto"), (["convert", "--in", "binary", "--out", fo], "binary")):
                    rec.count(f"several_files_{fi}_{label}")
                    compare_convert(rec, label, pre + [q1, q2], fi, fo, "CommandResponseStream", carried, None, dict(kind="convert-files", pre=pre, cut=cut, fmt_in=fi, fmt_out=fo, container=carried.hex()))


def cc_name(cc):
    P = layout.pinned()
    return next(n for n, v in P["command_codes"].items() if v == cc)


def misspell(rng, name):
    i = rng.randrange(len(name))
    r = rng.random()
    if r < 0.4:
        return name[:i] + name[i + 1 :]
    if r < 0.8:
        return name[:i] + rng.choice("xyzq") + name[i:]
    return name.swapcase()


def refuse_shard(shard, rec, rng, tmp):
    P = layout.pinned()
    p = write(tmp, "ok.bin", bytes.fromhex("80010000000c000001440000"))
    pr = write(tmp, "rsp.bin", bytes.fromhex("80010000000a00000000"))
    known_types = set(P["types"]) | {"Command", "Response", "CommandResponseStream"} | set(P["area_types"])
    for _ in range(shard["n"]):
        tn = misspell(rng, rng.choice(sorted(P["types"])))
        if tn in known_types:
            continue
        check_refused(rec, ["convert", "--in", "binary", "--type", tn, p], "unknown-type", "Unknown")
        cn = misspell(rng, rng.choice(sorted(P["command_codes"])))
        if cn in P["command_codes"]:
            continue
        check_refused(rec, ["convert", "--in", "binary", "--type", "Response", "--command", cn, pr], "unknown-command", "Unknown")
    check_refused(rec, ["convert", "--in", "binary", "--type", "Response", pr], "response-without-command", "--command")
    # positive control: the same invocation with a proper command decodes
    rc, so, se = cli(["convert", "--in", "binary", "--type", "Response", "--command", "Startup", pr])
    rec.case(("refuse-control", rc), nontrivial=True)
    if rc != 0 or "responseCode" not in so:
        rec.violation("convert-status", "control", f"Response with --command Startup was not decoded: status {rc}, stderr {se[-300:]}", dict(kind="refuse", args=["convert", "--in", "binary", "--type", "Response", "--command", "Startup"]))


def names_shard(shard, rec, rng, tmp):
    """Every command name the shard is given must be accepted by `convert --type Response --command NAME` (a failed response
    decodes under any code: the output with --out binary is the hex of the file), and near-misses of it - first letter
    doubled, a leading '_' or '2', first letter dropped, a trailing 'x' - must be refused."""
    P = layout.pinned()
    data = bytes.fromhex("80010000000a00000101")
    pr = write(tmp, "failed.bin", data)
    known = set(P["command_codes"])
    for name in shard["names"]:
        rc, so, se = cli(["convert", "--in", "binary", "--out", "binary", "--type", "Response", "--command", name, pr])
        rec.case(("name-accepted", name, rc), nontrivial=True)
        rec.count("command_names_accepted")
        got = "".join(norm(so).split())
        if rc != 0 or got != data.hex():
            rec.violation("convert-status", "known-command-name", f"tpmstream convert --in binary --out binary --type Response --command {name} <failed response>: status {rc}, stdout {so[:80]!r}, "
                                                                  f"stderr {se[-200:]!r}; expected status 0 and {data.hex()}", dict(kind="names", names=[name]))
        variants = [name[0] + name, "_" + name, "2" + name, name[1:], name + "x"]
        for v in (variants if shard.get("all_variants") else [variants[rng.randrange(len(variants))], variants[(len(name)) % len(variants)]]):
            if v in known or not v:
                continue
            check_refused(rec, ["convert", "--in", "binary", "--type", "Response", "--command", v, pr], "unknown-command", "Unknown", replay=dict(kind="names", names=[name], all_variants=True))


def check_refused(rec, args, label, needle, replay=None):
    rc, so, se = cli(args)
    rec.case(("refuse", label, rc), nontrivial=True)
    rec.count(f"refused_{label}")
    why = None
    if rc == 0:
        why = "exit status 0"
    elif so.strip():
        why = f"something was printed on stdout: {so[:100]!r}"
    elif needle not in se:
        why = f"no explanation on stderr: {se[-200:]!r}"
    elif label != "response-without-command" and "Did you mean" not in se:
        why = f"no suggestion on stderr: {se[-200:]!r}"
    if why:
        rec.violation("refuse", label, f"tpmstream {' '.join(args)}: {why}", replay or dict(kind="refuse-args", args=args, label=label, needle=needle))


def expected_type_listing(data):
    """Names under which the reference says the bytes decode strictly (None = unspecified for that entry)."""
    P = layout.pinned()
    out, unspecified = [], []
    for tn in sorted(P["types"]):
        d = P["types"][tn]
        if d["kind"] == "union" or tn == "TPM2B_ENCRYPTED_PARAM":
            continue
        if R.decode(tn, data).outcome.kind == "ok":
            out.append(tn)
    if R.decode("Command", data).outcome.kind == "ok":
        out.append("Command")
    for name, cc in P["command_codes"].items():
        k = R.decode("Response", data, cc=cc, enc=None).outcome.kind
        if k == "ok":
            out.append(f"Response (TPM_CC.{name})")
        elif k in ("enc_mismatch",):
            unspecified.append(f"Response (TPM_CC.{name})")
    return out, unspecified


def type_shard(shard, rec, rng, tmp):
    from .. import corpus

    g = gen.Gen(rng)
    prs = corpus.pairs()
    picks = []
    P = layout.pinned()
    tpm2bs = [t for t in cases.non_union_types() if t.startswith("TPM2B") and t != "TPM2B_ENCRYPTED_PARAM"]
    others = [t for t in cases.non_union_types() if not t.startswith("TPM2B")]
    for i in range(shard["n"]):
        k = (i + shard.get("start", 0)) % 6
        if k == 0:
            picks.append(rng.choice(prs)[1])  # captured command
        elif k == 1:
            picks.append(rng.choice(prs)[2])  # captured response
        elif k == 2:
            # a bare fixed-size value (listed under every integer / enum / attribute type of that width that allows it)
            pn = rng.choice([t for t in others if P["types"][t]["kind"] == "prim"])
            picks.append(g.build(pn)[0])
        elif k == 3:
            picks.append(g.build(rng.choice(tpm2bs))[0])  # a size-prefixed value (listed under several TPM2B types)
        elif k == 4:
            (cb, _e, _i), (rb, _e2, _i2) = g.pair(rng.choice(gen.ccs()))
            picks.append(rng.choice((cb, rb)))
        else:
            picks.append(g.build(rng.choice(others))[0])
    # binary content whose first / last byte has the value of an ASCII blank (a front-end must not "tidy" it away)
    edge = [b"\x00\x0a", b"\x20\x00\x00\x00", b"\x00\x04\x0d\x0a\x09\x20", b"\x0b"][shard.get("start", 0) % 4]
    picks.append(edge)
    # a successful response that is nothing but one handle (and one with a session area): listed under exactly the command
    # codes whose response handle TYPE allows that value - handles from every handle range in turn
    HANDLES = (0x02000000, 0x03000001, 0x80000000, 0x81000001, 0x40000007, 0x01000000, 0x80FFFFFF, 0x4000000C, 0x00000001, 0x40000001)
    h = HANDLES[(shard.get("start", 0) * 3 + int(shard.get("seed", 0))) % len(HANDLES)]
    picks.append(bytes.fromhex("80010000000e00000000") + h.to_bytes(4, "big"))
    h2 = HANDLES[(shard.get("start", 0) * 3 + int(shard.get("seed", 0)) + 5) % len(HANDLES)]
    picks.append(bytes.fromhex("80020000001700000000") + h2.to_bytes(4, "big") + bytes.fromhex("00000000" "0000" "00" "0000"))
    rec.count("type_one_handle_responses", 2)
    for i, data in enumerate(picks):
        fmt = ("binary", "hex", "auto-hex")[(i + shard.get("start", 0)) % 3]
        if data is edge:
            fmt = "binary"
        if fmt == "binary" or not data:
            fmt = "binary"
            p = write(tmp, f"ty{i}.bin", data)
            args = ["type", "--in", "binary", p]
        else:
            p = write(tmp, f"ty{i}.hex", c15.hex_render(data, rng, lead=False, split_first=False)[0])
            args = ["type", "--in", "hex", p] if fmt == "hex" else ["type", p]
        rec.count(f"type_in_{fmt}")
        rc, so, se = cli(args)
        want, unspecified = expected_type_listing(data)
        got = [l.strip() for l in so.splitlines() if l.strip()]
        rec.case(("type", len(want), rc), nontrivial=True)
        rec.count("type_runs")
        rec.count("type_entries_expected", len(want))
        rp = dict(kind="type", container=data.hex(), fmt=fmt)
        if rc != 0 or "Traceback" in se:
            last = [l for l in se.strip().splitlines() if l.strip()][-1] if se.strip() else ""
            m = re.search(r'File ".*/tpmstream/([^"]+)", line \d+, in (\w+)\n[^\n]*\n(\w+)', se[::-1][::-1])
            frames = re.findall(r'File ".*?/tpmstream/([^"]+)", line \d+, in (\w+)', se)
            where = f"{frames[-1][0]}:{frames[-1][1]}" if frames else "?"
            rec.violation("type-crash", f"{last.split(':')[0]}@{where}", f"tpmstream type on {data.hex()[:120]}: status {rc}\n{se[-500:]}", rp)
            continue
        miss = sorted((set(want) - set(got)))
        extra = sorted(set(got) - set(want) - set(unspecified))
        if miss or extra:
            rec.violation("type-listing", ("missing" if miss else "extra") + ":" + fmt, f"tpmstream {' '.join(args[:-1])} on {data.hex()[:120]}: missing {miss[:5]} extra {extra[:5]}", rp)
        if len(got) != len(set(got)):
            rec.violation("type-listing", "duplicate", f"tpmstream type lists an entry twice: {got[:10]}", rp)


def example_shard(shard, rec, rng, tmp):
    P = layout.pinned()
    for item in shard["items"]:
        if isinstance(item, int):
            name = cc_name(item)
        else:
            name = item
        rc, so, se = cli(["example", name], timeout=600)
        rec.case(("example", name, rc), nontrivial=True)
        rec.count("example_runs")
        rp = dict(kind="example", name=name)
        if rc != 0:
            rec.violation("example-status", f"status:{rc}", f"tpmstream example {name}: status {rc}\n{se[-400:]}", rp)
            continue
        blocks = [b for b in so.split("\n\n") if b.strip()]
        rec.count("example_blocks", len(blocks))
        for b in blocks:
            lines = b.strip("\n").splitlines()
            head = lines[0]
            m = re.match(r"^(\w+):(.*)$", head)
            if not m:
                rec.violation("example-form", "header", f"example {name}: block does not start with '<type>: <hex>': {head[:80]!r}", rp)
                break
            tn, hexs = m.group(1), "".join(m.group(2).split())
            data = bytes.fromhex(hexs)
            shown = [norm(l) for l in lines[1:]]
            if isinstance(item, int):
                # command or response of that code
                if tn == "Command":
                    code = int.from_bytes(data[6:10], "big")
                    if code != item:
                        rec.violation("example-filter", "wrong-command-code", f"example {name} printed a command with code {code:#x}", rp)
                        break
                    lib, comp = library_lines("binary", "pretty", "Command", data, None)
                elif tn == "Response":
                    # the flag is derived from the response's own sessions: try without and with it
                    lib, comp = library_lines_enc(data, item, None)
                    if comp is not True or [norm(l) for l in lib if not norm(l).startswith("Warning:")] != shown:
                        lib2, comp2 = library_lines_enc(data, item, True)
                        if comp2 is True:
                            lib, comp = lib2, comp2
                else:
                    rec.violation("example-filter", "wrong-kind", f"example {name} printed a {tn}", rp)
                    break
            else:
                if tn != name:
                    rec.violation("example-filter", "wrong-type", f"example {name} printed a {tn}", rp)
                    break
                lib, comp = library_lines("binary", "pretty", tn, data, None)
            # the examples are printed from objects, which carry no warnings: compare the field rows
            want = [norm(l) for l in lib if not norm(l).startswith("Warning:")]
            if comp is not True or shown != want:
                i = next((i for i, (a, c) in enumerate(zip(shown, want)) if a != c), min(len(shown), len(want)))
                rec.violation("example-redecode", f"{tn if tn in ('Command', 'Response') else 'type'}", f"example {name}: the printed {tn} {hexs[:80]} does not re-decode to what is shown (library: {comp}); line #{i}: shown {shown[i] if i < len(shown) else None!r} re-decoded {want[i] if i < len(want) else None!r}", rp)
                break
            rec.count("example_blocks_redecoded")


def library_lines_enc(data, cc, enc):
    from tpmstream.io.binary import Binary
    from tpmstream.io.pretty import Pretty
    from tpmstream.spec.commands import Response

    try:
        ev = list(Binary.marshal(tpm_type=Response, buffer=data, command_code=TR.cc_obj(cc), parameter_encryption=enc, abort_on_error=False))
        return list(Pretty.unmarshal(ev)), True
    except Exception as e:
        return [], type(e).__name__


def run_shard(shard, rec):
    rng = random.Random(f"{shard.get('seed', 0)}:C19:{shard['name']}")
    tmp = tempfile.mkdtemp(prefix="vt_c19_")
    try:
        {"convert": convert_shard, "refuse": refuse_shard, "type": type_shard, "example": example_shard, "names": names_shard}[shard["kind"]](shard, rec, rng, tmp)
    finally:
        shutil.rmtree(tmp, ignore_errors=True)
    rec.sample(dict(shard=shard["name"], counters=dict(rec.counters)))


def finish(m, tier):
    inc = []
    for k in ("convert_in_binary", "convert_in_hex", "convert_in_pcapng", "convert_in_swtpm-log", "convert_in_auto", "convert_out_pretty", "convert_out_events",
              "convert_out_binary", "refused_unknown-type", "refused_unknown-command", "refused_response-without-command", "command_names_accepted", "several_files_auto_files-cut-after-command", "several_files_auto_files-cut-inside-message", "type_runs", "example_runs", "example_blocks_redecoded"):
        if not m["counters"].get(k):
            inc.append(f"no {k}")
    return dict(inconclusive=inc)


def replay(r, rec):
    tmp = tempfile.mkdtemp(prefix="vt_c19_")
    try:
        k = r.get("kind")
        if k == "convert":
            cont = bytes.fromhex(r["container"])
            if r.get("stdin"):
                compare_convert(rec, "replay", r["args"], r["fmt_in"], r["fmt_out"], r["t"], cont, r.get("cc"), r, stdin=cont)
            else:
                p = write(tmp, "replay.dat", cont)
                compare_convert(rec, "replay", r["args"] + [p], r["fmt_in"], r["fmt_out"], r["t"], cont, r.get("cc"), r)
        elif k == "convert-files":
            cont = bytes.fromhex(r["container"])
            q1, q2 = write(tmp, "qa.bin", cont[: r["cut"]]), write(tmp, "qb.bin", cont[r["cut"] :])
            compare_convert(rec, "replay", r["pre"] + [q1, q2], r["fmt_in"], r["fmt_out"], "CommandResponseStream", cont, None, r)
        elif k == "names":
            names_shard(dict(names=r["names"], all_variants=True), rec, random.Random(0), tmp)
        elif k == "refuse-args":
            check_refused(rec, r["args"], r["label"], r["needle"])
        elif k == "type":
            data = bytes.fromhex(r["container"])
            if r.get("fmt", "binary") == "binary":
                args = ["type", "--in", "binary", write(tmp, "replay.bin", data)]
            else:
                p = write(tmp, "replay.hex", data.hex().encode())
                args = ["type", "--in", "hex", p] if r["fmt"] == "hex" else ["type", p]
            rc, so, se = cli(args)
            want, unspecified = expected_type_listing(data)
            got = [l.strip() for l in so.splitlines() if l.strip()]
            if rc != 0:
                rec.violation("type-crash", "replay", se[-400:], r)
            elif set(want) - set(got) or set(got) - set(want) - set(unspecified):
                rec.violation("type-listing", "replay", f"missing {sorted(set(want) - set(got))[:5]} extra {sorted(set(got) - set(want) - set(unspecified))[:5]}", r)
        elif k == "example":
            example_shard(dict(items=[r["name"] if r["name"] not in layout.pinned()["command_codes"] else layout.pinned()["command_codes"][r["name"]]]), rec, random.Random(0), tmp)
    finally:
        shutil.rmtree(tmp, ignore_errors=True)
