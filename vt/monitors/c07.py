"""C07 - warn mode and strict mode agree up to the first problem.

Pairwise trace comparison (no model): the same bytes are decoded in both modes and the recorded traces are
compared up to the first warning / the raise.
"""
import random

from .. import cases
from .. import trace as TR
from . import _strict, c06

PROPERTY = "C07"
LEVEL = "fault_enumeration"
RULE = (
    "well-formed generated messages / structures / corpus packets and their size-, value-, truncation- and suffix-faulted "
    "variants, all small-alphabet strings for the nested size-prefixed types, and mutated messages; both modes run on "
    "identical bytes; events before the first warning vs events before the raise, first warning vs raised error (class, "
    "text, paths, limits, counted, value, command code captured at observation time); distinct = distinct (type/code, fault, "
    "strict outcome class) cases, non-trivial when strict mode rejects"
)
ASSUMPTIONS = ["when both modes end in the same undocumented internal error the case is left to C06/C08"]
KEYS = ("cls", "str", "cpath", "max", "already", "vpath", "vvalue", "by", "value", "tname", "cc")


def plan(tier, seed):
    shards = _strict.plan_bases(tier, quick_msgs_cfgs=2, thorough_cfgs=6, struct_per_type=(1, 3))
    L, parts = (4, 3) if tier == "quick" else (6, 12)
    for p in range(parts):
        shards.append(dict(name=f"small{p}", kind="small", L=L, part=p, parts=parts))
    n = 3 if tier == "quick" else 12
    for i in range(n):
        shards.append(dict(name=f"mutate{i}", kind="mutate", n=300 if tier == "quick" else 6000, start=i, step=n))
    return shards


def first_problem(t, warn_mode=False):
    """(events before the first warning, first warning's error dict or - strict mode only - the final raise)"""
    for i, e in enumerate(t.events):
        if e.kind == "W":
            return t.events[:i], e.err
    if warn_mode:
        # in warn mode only a delivered warning counts: an exception escaping the generator is not a warning
        return t.events, None
    o = t.outcome
    if o[0] in ("constraint", "depleted", "superfluous"):
        return t.events, TR.snap_error(t.exc, materialize=False) if o[0] == "constraint" else TR.snap_error(t.exc)
    return t.events, None


def same_event(a, b):
    return a.kind == b.kind and a.path == b.path and a.tname == b.tname and a.value == b.value and a.vclass == b.vclass and a.type_id == b.type_id


def compare(case, rec, T=None):
    ts = TR.run(T or case.t, case.d, strict=True, cc=case.cc, enc=case.enc)
    tw = TR.run(T or case.t, case.d, strict=False, cc=case.cc, enc=case.enc)
    sk = ts.okind()
    rec.case((case.sig, sk), nontrivial=ts.outcome[0] != "ok")
    rec.count(f"strict_{sk}")
    out = []
    if ts.outcome[0] == "internal":
        if tw.outcome[0] == "internal" and tw.outcome[1] == ts.outcome[1]:
            rec.count("both_internal_same")
            return
        # strict itself failed internally: C06's business
        rec.count("strict_internal")
        return
    sev, serr = first_problem(ts)
    wev, werr = first_problem(tw, warn_mode=True)
    if ts.outcome[0] == "ok":
        # (c) strict accepts -> warn emits the identical events and no warning
        if tw.warnings:
            out.append(("accept-vs-warn", f"warn:{tw.warnings[0].err['cls']}", f"strict accepts, warn mode warns: {tw.warnings[0]!r}"))
        elif tw.outcome[0] != "ok":
            out.append(("accept-vs-warn", f"warn-outcome:{tw.okind()}", f"strict accepts, warn mode ends with {tw.outcome}"))
        elif len(ts.events) != len(tw.events) or not all(same_event(a, b) for a, b in zip(ts.events, tw.events)):
            out.append(("accept-vs-warn", "events-differ", "strict accepts, warn mode emits different events"))
    else:
        if werr is None:
            if tw.outcome[0] == "internal":
                out.append(("first-problem", f"warn-internal-before-first-warning:{tw.outcome[1]}", f"strict raises {sk}; warn mode failed internally before any warning: {tw.outcome[1]}: {tw.outcome[2]}"))
            else:
                # (d) warn mode emits no warning -> strict must accept
                how = "finished" if tw.outcome[0] == "ok" else f"raised {tw.okind()} itself"
                out.append(("no-warning-vs-reject", f"{sk}:{'escapes' if tw.outcome[0] != 'ok' else 'silent'}", f"strict raises {sk} ({ts.outcome}); warn mode {how} without delivering a warning"))
        else:
            value_problem = serr.get("cls") == "ValueConstraintViolatedError"
            exp = len(sev) + (1 if value_problem else 0)
            if value_problem and werr.get("cls") == "ValueConstraintViolatedError" and serr.get("cpath") is not None and len(wev) == len(sev):
                # unknown command code surfaced without a preceding primitive event is impossible: the offending event must come first
                pass
            if len(wev) != exp or not all(same_event(a, b) for a, b in zip(sev, wev)):
                out.append(("events-before", f"{sk}", f"strict emitted {len(sev)} events before raising, warn mode {len(wev)} before its first warning (expected {exp}); first difference: "
                            + next((f"#{i} {a!r} vs {b!r}" for i, (a, b) in enumerate(zip(sev, wev)) if not same_event(a, b)), "length")))
            elif value_problem and (wev[-1].path != serr.get("cpath") or wev[-1].value != serr.get("value")):
                out.append(("events-before", f"{sk}:offending-event", f"event before the value warning is {wev[-1]!r}, error is about {TR.pstr(serr.get('cpath'))} = {serr.get('value')}"))
            keys = KEYS + (("rem",) if serr.get("cls") == "InputStreamSuperfluousBytesError" else ())
            diff = {k: (serr.get(k), werr.get(k)) for k in keys if serr.get(k) != werr.get(k)}
            if diff:
                out.append(("first-problem", f"{sk}:{','.join(sorted(diff))}", f"strict error vs first warning differ in (strict, warn): {diff}"))
    for rule, mech, msg in out:
        rec.violation(rule, mech, f"{case.short()}\n{msg}", case.replay())


def run_shard(shard, rec):
    rng = random.Random(f"{shard.get('seed', 0)}:C07:{shard['name']}")
    thorough = shard.get("tier") == "thorough"
    k = shard["kind"]
    if k == "small":
        for case, T, _P in _strict.small_cases(shard["L"], shard["part"], shard["parts"]):
            compare(case, rec, T)
        return
    if k == "mutate":
        from .. import corpus, gen

        pk = corpus.packets()
        pool = [(b, i % 2) for i, (_f, _i, b) in enumerate(pk)][shard["start"] :: shard["step"] * 2]
        plain = [b for b, _ in pool]
        ccs = gen.ccs()
        for i in range(shard["n"]):
            b, is_rsp = rng.choice(pool)
            m = c06.mutate(rng, b, plain)
            if is_rsp:
                compare(cases.Case("Response", m, cc=rng.choice(ccs), enc=rng.choice((None, None, True)), origin="mutated", sig=("mut", i)), rec)
            else:
                compare(cases.Case("Command", m, origin="mutated", sig=("mut", i)), rec)
        return
    for base in _strict.base_cases(shard, rng):
        compare(base, rec)
        bref = base.ref()
        if bref.outcome.kind != "ok":
            continue
        lim = None if thorough else 5
        for fc in cases.size_faults(base, bref, ks=(1, 4), limit=lim, rng=rng):
            compare(fc, rec)
        for fc in cases.value_faults(base, bref, rng, limit=lim if lim is None else 3, second=True):
            compare(fc, rec)
        cuts = list(cases.cut_faults(base))
        for fc in (cuts if thorough else rng.sample(cuts, min(6, len(cuts)))):
            compare(fc, rec)
        for fc in cases.suffix_faults(base, rng):
            compare(fc, rec)
    rec.sample(dict(case=base.short()))


def finish(m, tier):
    inc = []
    for k in ("strict_ok", "strict_depleted", "strict_superfluous", "strict_ValueConstraintViolatedError", "strict_SizeConstraintExceededError",
              "strict_SizeConstraintSubceededError", "strict_AnticipatedSizeConstraintExceededError"):
        if not m["counters"].get(k):
            inc.append(f"no case with {k}")
    return dict(inconclusive=inc)


def replay(r, rec):
    case = cases.Case.from_replay(r)
    T = None
    if case.origin == "small":
        classes, _P = _strict.synthetic()
        T = classes.get(case.t)
    compare(case, rec, T)
