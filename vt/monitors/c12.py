"""C12 - decoding is a pure function of its arguments.

History checker: every completed decode in a recorded history (sequential A,B,A...; step-wise interleaved live
generators under a seeded scheduler; threads) is compared with the first completed decode of the same arguments
(events with ``==`` incl. the identity of every declared type, and the returned objects).
"""
import hashlib
import random
import sys
import threading

from .. import cases, gen, layout
from .. import refmodel as R
from .. import trace as TR

PROPERTY = "C12"
LEVEL = "exploration"
RULE = (
    "histories over pools of 3-6 generated messages (commands / responses with encrypted parameter areas of different "
    "command codes, plain ones, failed responses, malformed variants in warn mode, stand-alone structures, value-faulted variants, the same stream as pcapng captures with three link layers and as hex text through their front-ends): sequential repetitions A,B,A / A,B,C,A, "
    "step-wise interleavings of 2-4 live decode generators under a seeded scheduler, and 8 threads decoding the same pool "
    "concurrently with a 1 microsecond switch interval; every completed decode is compared with the first completed decode "
    "of the same arguments, and sampled items with the same decode in a fresh interpreter; distinct = distinct schedules (hash of the operation sequence) executed"
)
ASSUMPTIONS = ["equality is the library's own == on MarshalEvent (path, declared type object, value) and on the returned dataclass objects"]


def plan(tier, seed):
    q = tier == "quick"
    n = 8 if q else 16
    return [dict(name=f"hist{i}", n_pools=6 if q else 80, threads=(i % 4 == 0)) for i in range(n)]


def make_pool(rng):
    """[(label, type, bytes, cc, enc, strict)]"""
    g = gen.Gen(rng)
    allcc = gen.ccs(g.P)
    encable_c = [cc for cc in allcc if g.can_encrypt(g.P["areas"][str(cc)]["command_params"])]
    encable_r = [cc for cc in allcc if g.can_encrypt(g.P["areas"][str(cc)]["response_params"])]
    pool = []
    for cc in rng.sample(encable_c, 2):
        (cb, _e, ci), _r = g.pair(cc, dict(sessions=rng.choice((1, 2)), decrypt=True))
        pool.append((f"C{cc:x}dec", "Command", cb, None, None, True))
    for cc in rng.sample(encable_r, 2):
        _c, (rb, _e, ri) = g.pair(cc, dict(sessions=rng.choice((1, 2)), encrypt=True))
        pool.append((f"R{cc:x}enc", "Response", rb, cc, ri["enc"], True))
    cc = rng.choice(allcc)
    (cb, _e, ci), (rb, _e2, ri) = g.pair(cc, dict(sessions=rng.choice((0, 1))))
    pool.append((f"C{cc:x}", "Command", cb, None, None, True))
    pool.append((f"R{cc:x}", "Response", rb, cc, ri["enc"], True))
    # a malformed one in warn mode
    bad = bytearray(cb)
    if len(bad) > 12:
        bad[rng.randrange(10, len(bad))] ^= 0xFF
    pool.append((f"W{cc:x}", "Command", bytes(bad), None, None, False))
    rng.shuffle(pool)
    pool = pool[: rng.randint(3, 6)]
    # two different commands whose parameter areas have exactly the same member list (CreatePrimary / Create, the
    # *ChangeAuth commands, Load / LoadExternal responses ...), both with an encrypted parameter area: layouts derived from
    # equal-looking tables must not be confused with each other
    fams = {}
    for side, table, encable in (("C", "command_params", encable_c), ("R", "response_params", encable_r)):
        for cc in encable:
            fams.setdefault((side, tuple(map(tuple, g.A[g.P["areas"][str(cc)][table]]["fields"]))), []).append(cc)
    twins = sorted((k, v) for k, v in fams.items() if len(v) >= 2)
    if twins:
        (side, _f), members = twins[rng.randrange(len(twins))]
        for cc in rng.sample(members, 2):
            if side == "C":
                (cb2, _e, _ci), _r = g.pair(cc, dict(sessions=1, decrypt=True))
                pool.append((f"T{cc:x}dec", "Command", cb2, None, None, True))
            else:
                _c, (rb2, _e, ri2) = g.pair(cc, dict(sessions=1, encrypt=True))
                pool.append((f"T{cc:x}enc", "Response", rb2, cc, ri2["enc"], True))
    # stand-alone structures with size-prefixed parts: whole, truncated inside a sized buffer (strict: the decode is
    # abandoned with an error there), and the truncated one in warn mode - per-call state must not leak between them
    tn = rng.choice(("TPM2B_DIGEST", "TPM2B_PUBLIC", "TPM2B_SENSITIVE_CREATE", "TPML_DIGEST", "TPMT_HA", "TPM2B_ECC_POINT", "TPMS_AUTH_COMMAND", "TPM2B_NV_PUBLIC"))
    g.force = {}
    g.buf_len = rng.choice((8, 20, 32))
    sb, _ev = g.build(tn)
    g.buf_len = None
    pool.append((f"S{tn}", tn, sb, None, None, True))
    if len(sb) > 3:
        cut = sb[: rng.randrange(3, len(sb))]
        pool.append((f"S{tn}cut", tn, cut, None, None, True))
        pool.append((f"S{tn}cutw", tn, cut, None, None, False))
    # the same stream through front-ends that keep no state of their own - or should not: captures with different link
    # layers, hex text
    from . import c15 as _c15

    (cb2, _e, _i), (rb2, _e2, _i2) = g.pair(rng.choice(allcc), dict(sessions=0))
    for link in ("eth", "ipv4", "raw"):
        pc, _carried = _c15.pcap_render([cb2, rb2], rng, link=link)
        pool.append((f"pcap-{link}", "CommandResponseStream", pc, None, None, True, "pcapng"))
    pool.append(("hex", "CommandResponseStream", _c15.hex_render(cb2 + rb2, rng)[0], None, None, True, "hex"))
    # value-faulted variants of a pool message (boundary values just outside a field's set are often members of a
    # sibling interface type), strict and warn: verdicts must not depend on what was validated before
    from .. import cases as _cases

    msgs = [it for it in pool if it[1] in ("Command", "Response") and it[5] and len(it) == 6]
    if msgs:
        lab, t, b, cc, enc, _s = rng.choice(msgs)
        base = _cases.Case(t, b, cc, enc)
        bref = base.ref()
        if bref.outcome.kind == "ok":
            vf = list(_cases.value_faults(base, bref, rng, limit=2))
            for fc in rng.sample(vf, min(3, len(vf))):
                pool.append((f"{lab}~{fc.fault['field']}={fc.fault['new']}", t, fc.d, cc, enc, True))
                pool.append((f"{lab}~{fc.fault['field']}={fc.fault['new']}w", t, fc.d, cc, enc, False))
    # sibling types of one enumeration family asked about the same number: one allows it, one does not (a verdict
    # remembered for the family would make the answer depend on who asked first) - bare values, strict and warn
    P = layout.pinned()["types"]
    fam = {}
    for n, d in P.items():
        if d["kind"] == "prim" and d.get("bases") and len(d["bases"]) >= 2:
            fam.setdefault((d["bases"][-2], d["width"]), []).append(n)
    fams = sorted(k for k, v in fam.items() if len(v) >= 3)
    for _ in range(2):
        root, width = rng.choice(fams)
        members = fam[(root, width)]
        cands = sorted({a for n in members for a, b in P[n]["valid"] if b - a < 4096 for a in range(a, b)})
        rng.shuffle(cands)
        for v in cands[:40]:
            allow = [n for n in members if R.in_intervals(v, P[n]["valid"])]
            deny = [n for n in members if not R.in_intervals(v, P[n]["valid"])]
            if allow and deny and 0 <= v < (1 << (8 * width)):
                ta, td = rng.choice(allow), rng.choice(deny)
                b = v.to_bytes(width, "big")
                pair = [(f"F{ta}={v:#x}", ta, b, None, None, True), (f"F{td}={v:#x}", td, b, None, None, True), (f"F{td}={v:#x}w", td, b, None, None, False)]
                rng.shuffle(pair)
                pool.extend(pair)
                break
    # a union's fallback member (selector without a member of its own, warn mode) next to a regular member of the same
    # union: what one decode does to the union's tables must not change the next
    ut, bad, good = rng.choice((("TPMT_SIG_SCHEME", "0001000b", "0014000b"), ("TPMT_RSA_SCHEME", "0001000b", "0014000b"), ("TPMT_ASYM_SCHEME", "0001000b", "0018000b"),
                                ("TPMT_SIGNATURE", "0001000b0004aabbccdd", "0005000b0004aabbccdd")))
    pool.append((f"U{ut}-fallback", ut, bytes.fromhex(bad), None, None, False))
    pool.append((f"U{ut}-member", ut, bytes.fromhex(good), None, None, True))
    rng.shuffle(pool)
    return pool


class Live:
    """One decode in progress (a live generator) - stepped by the scheduler."""

    def __init__(self, item):
        from tpmstream.io.binary import Binary

        self.item = item
        _label, t, b, cc, enc, strict = item[:6]
        front = item[6] if len(item) > 6 else None
        kw = dict(tpm_type=TR.type_by_name(t), buffer=b, abort_on_error=strict)
        if front:
            from . import c15

            Binary = c15.front(front)
        if cc is not None:
            kw["command_code"] = TR.cc_obj(cc)
        if enc is not None:
            kw["parameter_encryption"] = enc
        self.gen = Binary.marshal(**kw)
        self.events = []
        self.done = False
        self.result = None

    def step(self, k):
        for _ in range(k):
            try:
                self.events.append(next(self.gen))
            except StopIteration as s:
                self.done = True
                self.result = ("ok", s.value)
                return
            except Exception as e:
                self.done = True
                self.result = ("exc", type(e).__name__, str(e))
                return

    def finish(self):
        while not self.done:
            self.step(1000)


def summarize(live):
    from tpmstream.common.event import MarshalEvent

    evs = []
    for e in live.events:
        if isinstance(e, MarshalEvent):
            evs.append(e)
        else:
            evs.append(("W", type(e.error).__name__, str(e.error)))
    return evs, live.result


def differs(a, b):
    ea, ra = a
    eb, rb = b
    if len(ea) != len(eb):
        return f"event count {len(ea)} != {len(eb)}"
    for i, (x, y) in enumerate(zip(ea, eb)):
        if not (x == y):
            what = "declared type object" if (not isinstance(x, tuple) and not isinstance(y, tuple) and x.path == y.path and x.value == y.value) else "event"
            return f"{what} #{i}: {x} (type id {id(getattr(x, 'type', None))}) != {y} (type id {id(getattr(y, 'type', None))})"
    if ra[0] != rb[0]:
        return f"outcome {ra[0]} != {rb[0]}"
    if ra[0] == "ok":
        if not (ra[1] == rb[1]):
            return "returned objects compare unequal"
    elif ra[1:] != rb[1:]:
        return f"exception {ra[1:]} != {rb[1:]}"
    return None


LAST = {}
ITEMS = {}


def run_history(pool, ops, rec, first, sched_sig, classes):
    """ops: list of ('start', slot, item index) / ('step', slot, k) / ('finish', slot) / ('abandon', slot)"""
    live = {}
    for op in ops:
        if op[0] == "start":
            live[op[1]] = Live(pool[op[2]])
        elif op[0] == "step":
            if op[1] in live and not live[op[1]].done:
                live[op[1]].step(op[2])
        elif op[0] == "abandon":
            l = live.pop(op[1], None)
            if l is not None:
                l.gen.close()
            continue
        elif op[0] == "finish":
            if op[1] in live:
                live[op[1]].finish()
        l = live.get(op[1])
        if l is not None and l.done:
            del live[op[1]]
            label = l.item[0]
            summ = summarize(l)
            LAST[label] = summ
            ITEMS[label] = l.item
            rec.count("decodes_completed")
            for e in summ[0]:
                if not isinstance(e, tuple) and e.path and len(e.path) == 2 and e.path[-1].name == "parameters" and getattr(e.type, "_encrypted", False):
                    key = e.type.__name__
                    classes.setdefault(key, set()).add(id(e.type))
                    rec.count("encrypted_area_events")
            if label not in first:
                first[label] = summ
            else:
                why = differs(first[label], summ)
                rec.count("comparisons")
                if why:
                    mech = "type-object" if "declared type object" in why else ("object" if "objects" in why else "events")
                    rec.violation("history", mech, f"decode of {label} ({l.item[1]} {l.item[2].hex()[:80]} cc={l.item[3]} enc={l.item[4]} strict={l.item[5]}{' via ' + l.item[6] if len(l.item) > 6 else ''}) differs from the first decode of the same arguments in this process: {why}\nschedule: {ops[:40]}",
                                  dict(pool=[(it[0], it[1], it[2].hex()) + tuple(it[3:]) for it in pool], ops=ops))


def seq_ops(rng, n_items):
    order = [0, 1, 0] if n_items == 2 else [rng.randrange(n_items) for _ in range(rng.randint(3, 7))]
    if n_items >= 3 and rng.random() < 0.5:
        order = [0, 1, 2, 0, 1]
    ops = []
    for i in order:
        ops += [("start", 0, i), ("finish", 0)]
    return ops


def interleaved_ops(rng, n_items):
    k = rng.randint(2, min(4, n_items))
    ops = []
    slots = list(range(k))
    items = [rng.randrange(n_items) for _ in slots]
    if rng.random() < 0.5:
        items[-1] = items[0]  # the same arguments twice, live at the same time
    for s, it in zip(slots, items):
        ops.append(("start", s, it))
    for _ in range(rng.randint(10, 60)):
        ops.append(("step", rng.choice(slots), rng.choice((1, 1, 2, 3, 7, 20))))
        if rng.random() < 0.03:
            s = rng.choice(slots)
            ops.append(("abandon", s))
            ops.append(("start", s, rng.randrange(n_items)))
    for s in slots:
        ops.append(("finish", s))
    # and once more, sequentially
    ops += [("start", 0, items[0]), ("finish", 0)]
    return ops


def norm_summary(summ):
    evs, result = summ
    out = []
    for e in evs:
        if isinstance(e, tuple):
            out.append(list(e))
        else:
            out.append(["M", str(e.path), TR.layout.tname(e.type), None if e.value is ... else int(e.value), None if e.value is ... else type(e.value).__name__])
    res = [result[0]] + ([] if result[0] == "ok" else [str(x) for x in result[1:]])
    return [out, res]


def fresh_decode(item):
    """Decode one item in this (fresh) process and return its normalised summary."""
    l = Live(tuple(item))
    l.finish()
    return norm_summary(summarize(l))


def fresh_process_reference(items, rec, last):
    """Purity relative to a clean slate: the last in-process decode of an item (after all the history of this shard)
    must equal the decode of the same arguments in a brand-new interpreter."""
    import json
    import subprocess

    from .. import env

    for item in items:
        label = item[0]
        arg = json.dumps([item[0], item[1], item[2].hex()] + list(item[3:]))
        code = ("import sys, json; from vt.monitors import c12; it = json.loads(sys.argv[1]); it[2] = bytes.fromhex(it[2]); "
                "print(json.dumps(c12.fresh_decode(it)))")
        r = subprocess.run([env.PYTHON, "-c", code, arg], capture_output=True, text=True, cwd=env.VERIF_ROOT, env=env.child_env(), timeout=120)
        if r.returncode != 0:
            rec.count("fresh_process_failed")
            continue
        ref = json.loads(r.stdout.strip().splitlines()[-1])
        mine = json.loads(json.dumps(norm_summary(last[label])))
        rec.case(("fresh", label), nontrivial=True)
        rec.count("fresh_process_comparisons")
        if ref != mine:
            i = next((i for i, (a, b) in enumerate(zip(ref[0], mine[0])) if a != b), None)
            what = f"event #{i}: fresh {ref[0][i]} vs here {mine[0][i]}" if i is not None else f"fresh: {len(ref[0])} events, {ref[1]}; here: {len(mine[0])} events, {mine[1]}"
            rec.violation("history-vs-fresh-process", "result-depends-on-history", f"decode of {label} ({item[1]} {item[2].hex()[:80]} cc={item[3]} enc={item[4]} strict={item[5]}) after this shard's history differs from the same decode in a fresh interpreter: {what}",
                          dict(pool=[(item[0], item[1], item[2].hex()) + tuple(item[3:])], ops=[("fresh",)]))


def first_use_race(rng, rec, classes, n=8):
    """Eight threads behind a barrier decode the same encrypted message whose layout was not used in this
    process yet: the first uses of a synthesized layout must agree, too."""
    g = gen.Gen(rng)
    P = g.P
    fresh = [cc for cc in gen.ccs(P) if g.can_encrypt(P["areas"][str(cc)]["response_params"]) and P["areas"][str(cc)]["response_params"] not in classes]
    rng.shuffle(fresh)
    old = sys.getswitchinterval()
    sys.setswitchinterval(1e-6)
    try:
        for cc in fresh[:n]:
            _c, (rb, _e, ri) = g.pair(cc, dict(sessions=1, encrypt=True))
            item = (f"race:R{cc:x}", "Response", rb, cc, ri["enc"], True)
            barrier = threading.Barrier(8)
            out = []

            def work():
                barrier.wait()
                l = Live(item)
                l.finish()
                out.append(summarize(l))

            ts = [threading.Thread(target=work) for _ in range(8)]
            for t in ts:
                t.start()
            for t in ts:
                t.join()
            rec.case(("first-use-race", cc), nontrivial=True)
            rec.count("first_use_races")
            for other in out[1:]:
                rec.count("comparisons")
                why = differs(out[0], other)
                if why:
                    mech = "type-object" if "declared type object" in why else ("object" if "objects" in why else "events")
                    rec.violation("history-first-use-race", mech, f"8 threads decoding the same encrypted response of command {cc:#x} for the first time disagree: {why}",
                                  dict(pool=[(item[0], item[1], rb.hex(), cc, ri["enc"], True)], ops=[("threads",)]))
                    break
    finally:
        sys.setswitchinterval(old)


def run_shard(shard, rec):
    from tpmstream.spec.commands.params_common import TPMS_PARAMS

    rng = random.Random(f"{shard.get('seed', 0)}:C12:{shard['name']}")
    first = {}
    classes = {}
    for p in range(shard["n_pools"]):
        pool = make_pool(rng)
        # labels are per pool
        pool = [(f"p{p}:{it[0]}",) + tuple(it[1:]) for it in pool]
        for mk in (seq_ops, interleaved_ops, interleaved_ops):
            ops = mk(rng, len(pool))
            sig = hashlib.sha1(repr(ops).encode()).hexdigest()[:12]
            rec.case(("sched", sig), nontrivial=True)
            rec.count(f"schedules_{mk.__name__}")
            run_history(pool, ops, rec, first, sig, classes)
        if shard["threads"] and p % 3 == 0:
            old = sys.getswitchinterval()
            sys.setswitchinterval(1e-6)
            results = {}

            def work(tid):
                r = random.Random(f"{tid}:{p}")
                out = []
                for _ in range(6):
                    it = pool[r.randrange(len(pool))]
                    l = Live(it)
                    l.finish()
                    out.append((it[0], summarize(l)))
                results[tid] = out

            ts = [threading.Thread(target=work, args=(i,)) for i in range(8)]
            for t in ts:
                t.start()
            for t in ts:
                t.join()
            sys.setswitchinterval(old)
            rec.case(("threads", p), nontrivial=True)
            rec.count("thread_runs")
            for tid, out in sorted(results.items()):
                for label, summ in out:
                    rec.count("decodes_completed")
                    if label in first:
                        rec.count("comparisons")
                        why = differs(first[label], summ)
                        if why:
                            mech = "type-object" if "declared type object" in why else ("object" if "objects" in why else "events")
                            rec.violation("history-threads", mech, f"thread {tid}: decode of {label} differs from the first decode: {why}", dict(pool=[(it[0], it[1], it[2].hex()) + tuple(it[3:]) for it in pool], ops=[("threads",)]))
                    else:
                        first[label] = summ
    first_use_race(rng, rec, classes)
    labels = sorted(LAST)
    picks = rng.sample(labels, min(8 if shard.get("tier") != "thorough" else 40, len(labels)))
    # prefer the value-faulted and stand-alone items: they are the ones whose verdicts could have been remembered
    picks = sorted(set(picks) | {l for l in labels if ":F" in l or ":U" in l}, key=lambda l: ("~" not in l and ":S" not in l and ":F" not in l and ":U" not in l))
    fresh_process_reference([ITEMS[l] for l in picks], rec, LAST)
    for name, ids in classes.items():
        rec.count("encrypted_layouts_seen")
        if len(ids) > 1:
            rec.violation("class-identity", "encrypted-layout-not-unique", f"the synthesized encrypted layout of {name} was {len(ids)} different class objects within one process", dict(pool=[], ops=[("class", name)]))
    info = TPMS_PARAMS.encrypted.__func__.cache_info() if hasattr(TPMS_PARAMS.encrypted, "__func__") and hasattr(TPMS_PARAMS.encrypted.__func__, "cache_info") else None
    rec.sample(dict(shard=shard["name"], encrypted_layouts=len(classes), cache_info=str(info)))


def finish(m, tier):
    inc = []
    for k in ("comparisons", "encrypted_area_events", "schedules_interleaved_ops", "schedules_seq_ops", "thread_runs", "first_use_races", "fresh_process_comparisons"):
        if not m["counters"].get(k):
            inc.append(f"no {k}")
    return dict(inconclusive=inc)


def replay(r, rec):
    pool = [(it[0], it[1], bytes.fromhex(it[2])) + tuple(it[3:]) for it in r["pool"]]
    ops = [tuple(o) for o in r["ops"]]
    if ops and ops[0][0] in ("threads", "class"):
        ops = seq_ops(random.Random(0), len(pool)) if pool else []
    if pool:
        run_history(pool, ops + [("start", 0, i) for i in range(0)], rec, {}, "replay", {})
        # A,B,A over every pair as a deterministic reproduction
        first = {}
        for i in range(len(pool)):
            for j in range(len(pool)):
                run_history(pool, [("start", 0, i), ("finish", 0), ("start", 0, j), ("finish", 0), ("start", 0, i), ("finish", 0)], rec, first, "replay", {})
