"""C18 - response codes are classified and named by the TPM 2.0 format rules.

Oracle: a reference classifier written from TPM 2.0 Part 2 section 6.6 with the pinned name tables.
Exhaustive over the low 12 bits (bit 7 or bit 8 set, plus zero), each also with reserved high bits set.
"""
import re

from .. import layout

PROPERTY = "C18"
LEVEL = "exploration"
RULE = (
    "all 4096 values of bits 0..11 having bit 7 or bit 8 set (TPM 2.0 codes) plus zero, each also or-ed with "
    "0xFFFFF000, 0x80000000 and 0x00001000; text form and bit rows compared with a reference classifier; distinct = "
    "distinct (classification, number, attribution) triples observed"
)
ASSUMPTIONS = ["pinned response-code name tables (checked by hand against Part 2, 6.6.3)"]

HIGH = (0, 0xFFFFF000, 0x80000000, 0x00001000)
ANSI = re.compile(r"\x1b\[[0-9;]*m")


def plan(tier, seed):
    step = 16
    return [dict(name=f"rc{i}", lo=i * 4096 // step, hi=(i + 1) * 4096 // step) for i in range(step)]


def classify(c, rc):
    """Reference: (class, name or None, attribution kind, attribution number)."""
    if c == 0:
        return ("success", "SUCCESS", None, None)
    if c & 0x80:
        n = c & 0x3F
        name = rc["fmt1"].get(str(n))
        if c & 0x40:
            return ("fmt1", name, "Parameter", (c >> 8) & 0xF)
        if c & 0x800:
            return ("fmt1", name, "Session", (c >> 8) & 0x7)
        return ("fmt1", name, "Handle", (c >> 8) & 0x7)
    if c & 0x400:
        return ("vendor", None, None, None)
    n = c & 0x7F
    if c & 0x800:
        return ("warning", rc["fmt0_warning"].get(str(n)), None, None)
    return ("error", rc["fmt0_error"].get(str(n)), None, None)


def all_names(rc):
    s = set()
    for t in rc.values():
        s.update(t.values())
    return s


def text_ok(text, cls, name, kind, num, known):
    """None if the text form carries the reference classification, else why not."""
    if cls == "success":
        return None if text.endswith(".SUCCESS") else "zero is not SUCCESS"
    m = re.match(r"^[A-Za-z_0-9]*\.([A-Za-z_0-9]+)(.*)$", text)
    if not m:
        return "no <class>.<name> form"
    got, rest = m.group(1), m.group(2)
    if cls == "vendor":
        if "endor" not in text:
            return "vendor-defined code not marked as such"
        return None
    if name is not None:
        if got != name:
            return f"name {got} != {name}"
    else:
        if got in known or got == "SUCCESS":
            return f"unnamed number shown as {got}"
    if "endor" in text:
        return "shown as vendor-defined"
    if cls == "fmt1":
        mm = re.search(r"(Parameter|Session|Handle)\D*(\d+)", rest, re.I)
        if not mm:
            return "no parameter/session/handle attribution"
        if mm.group(1).lower() != kind.lower() or int(mm.group(2)) != num:
            return f"attributed to {mm.group(1)} {mm.group(2)}, expected {kind} {num}"
    else:
        if re.search(r"(Parameter|Session|Handle)\s*No", rest, re.I):
            return "format-zero code carries an attribution"
    return None


def rows_ok(rows, c, cls, name, kind, num):
    if c == 0:
        return None  # nothing to partition is fine; zero has no fields set
    union, overlap = 0, 0
    for r in rows:
        overlap |= union & r._value
        union |= r._value
    if overlap:
        return f"bit rows overlap in {overlap:#x}"
    if union != 0xFFFFFFFF:
        return f"bit rows leave {0xFFFFFFFF ^ union:#010x} uncovered"
    details = " | ".join(f"{r._name}:{r._details}" for r in rows if r._details)
    if cls == "fmt1":
        if name is not None and not re.search(rf"\b{re.escape(name)}\b", details):
            return f"rows do not name {name}: {details}"
        mm = re.search(r"(Parameter|Session|Handle)\D*(\d+)", details, re.I)
        if not mm or mm.group(1).lower() != kind.lower() or int(mm.group(2)) != num:
            return f"rows attribute differently: {details}"
    elif cls in ("warning", "error"):
        if name is not None and not re.search(rf"\b{re.escape(name)}\b", details):
            return f"rows do not name {name}: {details}"
        if (cls == "warning") != bool(re.search(r"Warning", details)) or (cls == "error") != bool(re.search(r"\bError", details)):
            return f"rows give another severity: {details}"
    return None


def printed_rows_ok(c, rows):
    """The printer's bit rows for a failed response carrying code c."""
    from tpmstream.io.binary import Binary
    from tpmstream.io.pretty import Pretty
    from tpmstream.spec.commands import Response
    from tpmstream.spec.structures.constants import TPM_CC

    data = b"\x80\x01\x00\x00\x00\x0a" + c.to_bytes(4, "big")
    events = list(Binary.marshal(tpm_type=Response, buffer=data, command_code=TPM_CC.Startup))
    lines = [ANSI.sub("", l) for l in Pretty.unmarshal(events)]
    bitlines = [l.split() for l in lines[4:]]
    if len(lines) < 4 or len(bitlines) != len(rows):
        return f"{len(bitlines)} bit rows printed for {len(rows)} fields"
    overlay = ["."] * 32
    for toks, r in zip(bitlines, rows):
        bits = next((t for t in toks if len(t) == 32 and set(t) <= set("01.")), None)
        if bits is None:
            return f"row without 32-bit pattern: {toks}"
        label = next((t for t in toks if t.startswith(".") and not set(t) <= set("01.")), None)
        if label != "." + r._name:
            return f"row label {label} != {r._name}"
        for i, ch in enumerate(bits):
            m = (r._value >> (31 - i)) & 1
            if m:
                if ch != str((c >> (31 - i)) & 1):
                    return f"row {r._name} shows wrong bit {31 - i}"
                if overlay[i] != ".":
                    return f"bit {31 - i} shown twice"
                overlay[i] = ch
            elif ch != ".":
                return f"row {r._name} shows bit {31 - i} outside its mask"
    if "".join(overlay) != f"{c:032b}":
        return "overlay of rows != value"
    return None


def check_code(c, rc, known, rec, tier, TPM_RC):
    cls, name, kind, num = classify(c, rc)
    rec.case((cls, name, kind, num))
    rec.count(f"class_{cls}")
    x = TPM_RC(c)
    for form, text in (("str", str(x)), ("format", format(x, ""))):
        why = text_ok(text, cls, name, kind, num, known)
        if why:
            rec.violation("text", f"{form}:{cls}:{why.split(' ')[0]}", f"code {c:#010x}: {form}() = {text!r}: {why} (reference: {cls} {name} {kind} {num})", dict(code=c))
    rows = x.attributes()
    why = rows_ok(rows, c, cls, name, kind, num)
    if why:
        rec.violation("rows", f"{cls}:{why.split(' ')[0]} {why.split(' ')[1] if ' ' in why else ''}", f"code {c:#010x}: {why}", dict(code=c))
    if c and (tier == "thorough" or (c & 0xFFF) % 5 == 0):
        rec.count("printed")
        why = printed_rows_ok(c, rows)
        if why:
            rec.violation("printed-rows", f"{cls}:{' '.join(why.split(' ')[:3])}", f"code {c:#010x}: {why}", dict(code=c))


def run_shard(shard, rec):
    from tpmstream.spec.structures.constants import TPM_RC

    rc = layout.pinned()["rc_tables"]
    known = all_names(rc)
    for low in range(shard["lo"], shard["hi"]):
        if low != 0 and not (low & 0x180):
            rec.count("skipped_tpm12_style")
            continue
        for hi in HIGH:
            if low == 0 and hi:
                continue
            check_code(low | hi, rc, known, rec, shard.get("tier", "quick"), TPM_RC)
    # history: codes outside the property's domain (TPM 1.2 style: bits 7 and 8 clear) are formatted in between - their
    # text is not judged, but they must not change what the codes of the domain look like afterwards
    for junk in (0xFFF00000, 0x80000000, 0x00001000, 0xFFFFF07F, 0x0000007F, 0xFFFFF000 | (shard["lo"] & 0x7F)):
        str(TPM_RC(junk))
        format(TPM_RC(junk), "")
        TPM_RC(junk).attributes()
        rec.count("out_of_domain_codes_formatted")
    recheck = [0] + [c for c in range(shard["lo"], shard["hi"], 37) if c & 0x180]
    for low in recheck:
        for hi in HIGH:
            if low == 0 and hi:
                continue
            check_code(low | hi, rc, known, rec, "quick", TPM_RC)
            rec.count("rechecked_after_history")
    # the same codes arriving as already typed values (a code taken out of a decoded response and wrapped again, a sized
    # integer): text and rows are those of the plain integer
    from tpmstream.spec.structures.base_types import UINT32

    for low in recheck:
        c = low
        plain = TPM_RC(c)
        want = (str(plain), [(a._name, int(a._value), a._details) for a in plain.attributes()])
        for label, make in (("TPM_RC(TPM_RC(c))", lambda: TPM_RC(TPM_RC(c))), ("TPM_RC(UINT32(c))", lambda: TPM_RC(UINT32(c)))):
            try:
                y = make()
                got = (str(y), [(a._name, int(a._value), a._details) for a in y.attributes()])
            except Exception as e:
                rec.violation("route", f"raises:{label}", f"code {c:#010x} built as {label}: {type(e).__name__}: {e}", dict(code=c, route=label))
                continue
            rec.count("typed_routes_checked")
            if got != want:
                rec.violation("route", label, f"code {c:#010x} built as {label}: text {got[0]!r} / {len(got[1])} rows, built from the integer: {want[0]!r} / {len(want[1])} rows", dict(code=c, route=label))
    rec.sample(dict(code="0x000009a2", text=str(TPM_RC(0x9A2))))
    rec.sample(dict(code="0x000001c4", text=str(TPM_RC(0x1C4))))


def finish(m, tier):
    inc = []
    for k in ("class_fmt1", "class_vendor", "class_warning", "class_error", "class_success", "printed"):
        if not m["counters"].get(k):
            inc.append(f"no case of {k} observed")
    return dict(exhaustive=True, inconclusive=inc)


def replay(case, rec):
    from tpmstream.spec.structures.constants import TPM_RC

    rc = layout.pinned()["rc_tables"]
    check_code(case["code"], rc, all_names(rc), rec, "thorough", TPM_RC)
