"""C11 - events and Python objects convert into each other without loss.

Round-trip identities over the recorded decode: object returned by the decoder == object rebuilt from the
events; either object turned back into events reproduces the decoded event list exactly; re-encoding gives the
input; the Canonical facade agrees.
"""
import random

from .. import cases, gen
from .. import trace as TR
from . import _strict

PROPERTY = "C11"
LEVEL = "exploration"
RULE = (
    "well-formed generated encodings of all non-union structure types (with forced empty structured TPM2Bs and every "
    "selector value, i.e. every payload-less union arm), all command codes x directions x configurations (sessions, "
    "encrypted parameters, failed responses) and the captured corpus; per input: decoder object vs events_to_obj (fed with a list, an iterator and the live decoder), "
    "obj_to_events of both vs the decoded events (length, path, declared type identity, value, value class), re-encoded "
    "bytes, Canonical from bytes (lazy and eager; events first, object first, each read twice) and from the object; streams (some ending after a command): events_to_objs, the objects turned back into events and re-encoded; distinct = distinct (type/code, configuration, arms, event count) cases"
)
ASSUMPTIONS = ["equality is the library's own == on the dataclass objects and on MarshalEvent"]


def plan(tier, seed):
    types = cases.non_union_types()
    ccs = gen.ccs()
    q = tier == "quick"
    n = 5 if q else 12
    shards = []
    for i in range(n):
        shards.append(dict(name=f"struct{i}", kind="struct", types=types[i::n], per_type=3 if q else 40, sweep=True))
        shards.append(dict(name=f"msg{i}", kind="msg", ccs=ccs[i::n], n_configs=4 if q else 12))
    for i in range(2 if q else 6):
        shards.append(dict(name=f"corpus{i}", kind="corpus", start=i, step=(2 if q else 6) * (10 if q else 1)))
    for i in range(2 if q else 6):
        shards.append(dict(name=f"stream{i}", kind="stream", n=12 if q else 120, max_pairs=4))
    return shards


def ev_diff(a, b):
    """First difference between two lists of raw MarshalEvents (full comparison)."""
    for i in range(max(len(a), len(b))):
        if i >= len(a):
            return i, f"missing event, other side has {b[i]} ({TR.layout.tname(b[i].type)})"
        if i >= len(b):
            return i, f"extra event {a[i]} ({TR.layout.tname(a[i].type)})"
        x, y = a[i], b[i]
        if x.path != y.path:
            return i, f"path {x.path} != {y.path}"
        if x.type is not y.type:
            return i, f"declared type of {x.path}: {TR.layout.tname(x.type)} (id {id(x.type)}) is not {TR.layout.tname(y.type)} (id {id(y.type)})"
        if (x.value is ...) != (y.value is ...) or (x.value is not ... and (x.value != y.value or type(x.value) is not type(y.value))):
            return i, f"value of {x.path}: {x.value!r} ({type(x.value).__name__}) != {y.value!r} ({type(y.value).__name__})"
    return None


def absent_kind(case, idx, events):
    """Classify where two event lists start to differ: empty tpm2b payload / union arm / area ..."""
    if idx < len(events):
        e = events[idx]
        tn = TR.layout.tname(e.type) or ""
        if tn.startswith("TPMU"):
            return "payload-less-union-arm"
        parent = TR.layout.tname(events[idx - 1].type) if idx else ""
        return "after:" + (tn.split("_")[0] if tn else "?")
    return "tail"


def check(case, rec):
    from tpmstream.common.canonical import Canonical
    from tpmstream.common.object import events_to_obj, obj_to_events
    from tpmstream.io.binary import Binary

    t = TR.run(case.t, case.d, strict=True, cc=case.cc, enc=case.enc)
    if t.outcome[0] != "ok":
        rec.count(f"not_decodable_{t.okind()}")
        return
    rec.case(case.sig, nontrivial=bool(case.d))
    events = [e.raw for e in t.events]
    out = []
    obj_dec = t.obj
    cc = TR.cc_obj(case.cc) if case.cc is not None else None
    try:
        obj_ev = events_to_obj(events, command_code=cc)
    except Exception as e:
        rec.violation("events_to_obj", "raises:" + TR.mechanism(e), f"{case.short()}\nevents_to_obj raised {type(e).__name__}: {e}", case.replay())
        return
    # the conversion takes any iterable of events: an iterator and the live decoder must give the same object as the list
    if rec.counters.get("feeds_compared", 0) < 400 or rec.evaluations % 5 == 0:
        try:
            o_iter = events_to_obj(iter(events), command_code=cc)
            o_live = events_to_obj(TR.open_decode(case.t, case.d, True, case.cc, case.enc), command_code=cc)
            rec.count("feeds_compared")
            if not (o_iter == obj_ev):
                out.append(("events_to_obj-feed", "iterator", "events_to_obj(iter(events)) != events_to_obj(list of events)"))
            if not (o_live == obj_ev):
                out.append(("events_to_obj-feed", "live-decoder", "events_to_obj(<live decoder>) != events_to_obj(list of events)"))
        except Exception as e:
            out.append(("events_to_obj-feed", "raises:" + TR.mechanism(e), f"events_to_obj fed with an iterator / the live decoder raised {type(e).__name__}: {e}"))
    if obj_dec is None and events:
        out.append(("decoder-object", "none", "the decoder returned no object"))
    elif not (obj_dec == obj_ev):
        out.append(("objects-equal", "decoder-vs-rebuilt:" + first_obj_diff(obj_dec, obj_ev), f"object returned by the decoder != object rebuilt from the events: {first_obj_diff(obj_dec, obj_ev, verbose=True)}"))
    for name, obj in (("decoder", obj_dec), ("rebuilt", obj_ev)):
        if obj is None:
            continue
        try:
            back = list(obj_to_events(obj))
        except Exception as e:
            out.append(("obj_to_events", f"{name}:raises:" + TR.mechanism(e), f"obj_to_events({name} object) raised {type(e).__name__}: {e}"))
            continue
        d = ev_diff(back, events)
        if d:
            out.append(("obj_to_events", f"{name}:{absent_kind(case, d[0], back if len(back) > d[0] else events)}", f"events of the {name} object differ from the decoded events at #{d[0]}: {d[1]} ({len(back)} vs {len(events)} events)"))
        else:
            re_enc = b"".join(Binary.unmarshal(back))
            if re_enc != case.d:
                out.append(("re-encode", name, f"re-encoding the {name} object gives {re_enc.hex()[:80]} != input"))
    # Canonical facade (TPM2B_ENCRYPTED_PARAM is a synthesized helper layout, not one of the facade's input types)
    try:
        if case.t == "TPM2B_ENCRYPTED_PARAM":
            raise StopIteration
        kw = dict(format_in=Binary, tpm_type=TR.type_by_name(case.t), abort_on_error=True)
        if cc is not None:
            kw["command_code"] = cc
        # the facade is used in every order a caller can use it: events first, object first, each read
        # twice, lazy and eager
        # (iter(Canonical) raises TypeError on the pinned tree - __iter__ returns a list; no property speaks about it)
        ORDERS = (("events", "object"), ("object", "events"), ("events", "events", "object"), ("object", "object", "events"))
        n_can = rec.counters.get("canonical_from_bytes", 0)
        if case.enc is None:
            for lazy in (True, False):
                for order in (ORDERS if n_can % 3 == 0 else ORDERS[n_can % 2 :: 2]):
                    can = Canonical(case.d, lazy=lazy, **kw)
                    label = f"lazy={lazy}, reads: {' then '.join(order)}"
                    for what in order + ("events", "object"):
                        if what == "object":
                            if not (can.object == obj_dec):
                                out.append(("canonical", f"object-from-bytes:{'-'.join(order)}", f"Canonical(bytes).object != decoder object ({label})"))
                                break
                        else:
                            got = list(can.events) if what == "events" else list(iter(can))
                            d = ev_diff(got, events)
                            if d:
                                out.append(("canonical", f"events-from-bytes:{'-'.join(order)}", f"Canonical(bytes).{what if what == 'events' else '__iter__()'} differ at #{d[0]}: {d[1]} ({label})"))
                                break
                    rec.count("canonical_access_orders")
            rec.count("canonical_from_bytes")
        if obj_dec is not None:
            for order in (("events", "object"), ("object", "events")):
                can2 = Canonical(obj_dec)
                for what in order + ("events",):
                    if what == "object":
                        if not (can2.object == obj_dec):
                            out.append(("canonical", "object-from-object", f"Canonical(object).object != the object it was made from (reads: {order})"))
                            break
                    else:
                        d = ev_diff(list(can2.events), events)
                        if d:
                            out.append(("canonical", f"events-from-object:{absent_kind(case, d[0], events)}", f"Canonical(object).events differ from the decoded events at #{d[0]}: {d[1]} (reads: {order})"))
                            break
            rec.count("canonical_from_object")
    except StopIteration:
        pass
    except Exception as e:
        out.append(("canonical", "raises:" + TR.mechanism(e), f"Canonical raised {type(e).__name__}: {e}"))
    for ev in t.mevents:
        if ev.value is None and ev.tname and not ev.tname.startswith("list[") and TR.layout.pinned()["types"].get(ev.tname, {}).get("kind") == "union":
            rec.count("union_events")
    for rule, mech, msg in out:
        rec.violation(rule, mech, f"{case.short()}\n{msg}", case.replay())
    rec.sample(dict(case=case.short(), events=len(events)), cap=3)


def check_stream(case, rec):
    """A stream has no object of its own: events_to_objs is its events -> objects conversion.  Turning the objects back into
    events must reproduce the decoded event list (every message, also a last command without response), and re-encoding
    them the input."""
    from tpmstream.common.object import events_to_objs, obj_to_events
    from tpmstream.io.binary import Binary

    t = TR.run("CommandResponseStream", case.d, strict=True)
    if t.outcome[0] != "ok":
        rec.count(f"stream_not_decodable_{t.okind()}")
        return
    rec.case(("stream", case.sig), nontrivial=True)
    rec.count("streams_converted")
    events = [e.raw for e in t.events]
    roots = [i for i, e in enumerate(t.events) if e.kind == "M" and len(e.path) == 1]
    if len(roots) % 2 == 1:
        rec.count("streams_ending_after_a_command")
    try:
        objs = list(events_to_objs(events))
        back = []
        for o in objs:
            back.extend(obj_to_events(o))
    except Exception as e:
        rec.violation("stream-objects", "raises:" + TR.mechanism(e), f"{case.short()}\nevents -> objects -> events raised {type(e).__name__}: {e}", case.replay(stream=True))
        return
    if len(objs) != len(roots):
        rec.violation("stream-objects", "count", f"{case.short()}\n{len(objs)} objects for the {len(roots)} messages of the stream", case.replay(stream=True))
        return
    d = ev_diff(back, events)
    if d:
        rec.violation("stream-objects", "events-differ", f"{case.short()}\nobjects turned back into events differ from the decoded events at #{d[0]}: {d[1]}", case.replay(stream=True))
        return
    re_enc = b"".join(Binary.unmarshal(back))
    if re_enc != case.d:
        rec.violation("stream-objects", "re-encode", f"{case.short()}\nre-encoding the objects gives {len(re_enc)} bytes, the input has {len(case.d)}", case.replay(stream=True))


def first_obj_diff(a, b, path="", verbose=False):
    """Where two dataclass objects start to differ: returns a short mechanism (or a sentence when verbose)."""
    import dataclasses

    def res(kind, text):
        return text if verbose else kind

    if a is None or b is None:
        if a is None and b is None:
            return res("same", "same")
        other = b if a is None else a
        allnone = dataclasses.is_dataclass(other) and all(getattr(other, f.name) is None for f in dataclasses.fields(other))
        side = "decoder" if a is None else "rebuilt"
        return res(f"none-vs-{'empty-instance' if allnone else 'value'}", f"{path or '.'}: {side} object has None, the other has {'an all-None ' + type(other).__name__ if allnone else repr(other)[:80]}")
    if dataclasses.is_dataclass(a) and dataclasses.is_dataclass(b):
        if type(a) is not type(b):
            return res("class", f"{path or '.'}: {type(a).__name__} (id {id(type(a))}) vs {type(b).__name__} (id {id(type(b))})")
        for f in dataclasses.fields(a):
            x, y = getattr(a, f.name), getattr(b, f.name)
            if not (x == y):
                return first_obj_diff(x, y, f"{path}.{f.name}", verbose)
        return res("eq-only", f"{path}: fields equal but objects unequal")
    if isinstance(a, list) and isinstance(b, list):
        if len(a) != len(b):
            return res("list-length", f"{path}: list length {len(a)} vs {len(b)}")
        for i, (x, y) in enumerate(zip(a, b)):
            if not (x == y):
                return first_obj_diff(x, y, f"{path}[{i}]", verbose)
    return res("value", f"{path}: {a!r} vs {b!r}")


def check_across_threads(case, rec):
    """The decoder runs in a worker thread, the conversion back in the calling thread (objects and events are plain
    values; where they were produced must not matter)."""
    import threading

    from tpmstream.common.object import events_to_obj, obj_to_events

    box = {}

    def work():
        box["t"] = TR.run(case.t, case.d, strict=True, cc=case.cc, enc=case.enc)

    th = threading.Thread(target=work)
    th.start()
    th.join()
    t = box.get("t")
    if t is None or t.outcome[0] != "ok":
        return
    rec.case(("threads", case.sig), nontrivial=True)
    rec.count("cross_thread_round_trips")
    events = [e.raw for e in t.events]
    cc = TR.cc_obj(case.cc) if case.cc is not None else None
    try:
        obj_ev = events_to_obj(events, command_code=cc)
        back = list(obj_to_events(obj_ev))
    except Exception as e:
        rec.violation("cross-thread", "raises:" + TR.mechanism(e), f"{case.short()}\n{type(e).__name__}: {e}", case.replay(threads=True))
        return
    if not (t.obj == obj_ev):
        rec.violation("cross-thread", "objects-equal:" + first_obj_diff(t.obj, obj_ev), f"{case.short()}\nobject decoded in a worker thread != object rebuilt from its events in the calling thread: {first_obj_diff(t.obj, obj_ev, verbose=True)}", case.replay(threads=True))
        return
    d = ev_diff(back, events)
    if d:
        rec.violation("cross-thread", "obj_to_events", f"{case.short()}\nevents of the object rebuilt in the calling thread differ from the events decoded in the worker thread at #{d[0]}: {d[1]}", case.replay(threads=True))


def run_shard(shard, rec):
    rng = random.Random(f"{shard.get('seed', 0)}:C11:{shard['name']}")
    if shard.get("kind") == "stream":
        for base in _strict.base_cases(shard, rng):
            check_stream(base, rec)
        return
    for base in _strict.base_cases(shard, rng, hostile=rec):
        check(base, rec)
        if base.t in ("Command", "Response") and (base.enc or (base.t == "Command" and b"\x80\x02" == base.d[:2])):
            check_across_threads(base, rec)
        if base.origin == "gen-empty2b":
            rec.count("empty_structured_tpm2b_cases")
        if base.t == "Response" and base.enc:
            rec.count("encrypted_responses")


def finish(m, tier):
    inc = []
    for k in ("canonical_from_bytes", "canonical_from_object", "empty_structured_tpm2b_cases", "encrypted_responses", "union_events", "cross_thread_round_trips", "streams_converted", "streams_ending_after_a_command"):
        if not m["counters"].get(k):
            inc.append(f"no {k}")
    return dict(inconclusive=inc)


def replay(r, rec):
    if r.get("stream"):
        check_stream(cases.Case.from_replay(r), rec)
        return
    if r.get("threads"):
        check_across_threads(cases.Case.from_replay(r), rec)
    else:
        check(cases.Case.from_replay(r), rec)
