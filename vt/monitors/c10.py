"""C10 - decoding is incremental: one byte of look-ahead, prefix-stable, source-agnostic.

Ordering law over the pull log: at every emitted event the number of bytes pulled from the source is at most
one more than the bytes of the fields emitted so far (well-formed inputs and their prefixes); prefix decodes
are prefixes; every kind of byte iterable gives the same result; the lazy text front-ends and the file
concatenation do not read ahead of the byte that supplies the look-ahead.
"""
import random

from .. import cases, gen, probes
from .. import trace as TR
from . import _strict, c15

PROPERTY = "C10"
LEVEL = "fault_enumeration"
RULE = (
    "generated commands, responses, structures and streams: the whole input and every cut point (strict mode; warn mode on the whole input and on every second cut point, thorough: all), with a counting byte "
    "source (pull log vs running sum of emitted field bytes); 11 other source kinds (file objects through bytes_from_files, an iterator with close(), bytes, bytearray, list, tuple, iterator, "
    "generator, memoryview, array, deque) must give identical events / outcome on the whole input and (one other kind per cut point, rotating) on every prefix; hex and swtpm-log renderings with layout "
    "noise fed through a counting character source, and cut behind sampled carried bytes (same events and end as the carried prefix, both modes); several files through bytes_from_files with logged read() calls; "
    "distinct = distinct (type/code, cut position) and (front-end, stream, layout) cases"
)
ASSUMPTIONS = ["pcapng is documented as non-lazy and excluded from the look-ahead clause", "trailing byte-less structural events after the last complete field of a prefix are free"]
ANCHORS = probes.PUMP[2:]


def plan(tier, seed):
    q = tier == "quick"
    shards = _strict.plan_bases(tier, quick_msgs_cfgs=1, thorough_cfgs=5, struct_per_type=(1, 3), corpus_step=(200, 20), nshards=(4, 12))
    for i in range(3 if q else 10):
        shards.append(dict(name=f"stream{i}", kind="stream", n=3 if q else 25, max_pairs=3))
        shards.append(dict(name=f"front{i}", kind="front", n=4 if q else 40))
    return shards


def lookahead(t, rec, case):
    consumed = 0
    worst = 0
    for ev in t.events:
        if ev.kind == "M" and isinstance(ev.chunk, bytes):
            consumed += len(ev.chunk) if isinstance(ev.chunk, bytes) else 0
        if ev.kind == "W" and ev.err["cls"] == "InputStreamBytesDepletedError":
            continue  # the input ended inside a field: its bytes were pulled and no event can show them
        d = ev.pulls - consumed
        worst = max(worst, d)
        rec.count("events_checked")
        rec.count(f"distance_{min(d, 3) if d >= 0 else 'neg'}")
        if d > 1 or d < 0:
            rec.violation("look-ahead", f"distance:{min(d, 3)}", f"{case.short()}\nat {ev!r}: {ev.pulls} bytes pulled, {consumed} bytes of fields emitted", case.replay())
            return


def same_trace(a, b):
    if len(a.events) != len(b.events) or a.outcome[0] != b.outcome[0]:
        return False
    for x, y in zip(a.events, b.events):
        if (x.kind, x.path, x.tname, x.value, x.vclass) != (y.kind, y.path, y.tname, y.value, y.vclass):
            return False
        if x.kind == "W" and {k: v for k, v in x.err.items()} != {k: v for k, v in y.err.items()}:
            return False
    if a.outcome[0] == "constraint":
        return {k: v for k, v in a.outcome[1].items() if k != "rem"} == {k: v for k, v in b.outcome[1].items() if k != "rem"} and a.outcome[1].get("rem") == b.outcome[1].get("rem")
    return a.outcome == b.outcome


def check_base(base, rec, rng, thorough):
    whole = TR.run(base.t, base.d, strict=True, cc=base.cc, enc=base.enc)
    if whole.outcome[0] != "ok":
        return
    rec.case(base.sig, nontrivial=True)
    lookahead(whole, rec, base)
    # source kinds
    for kind in TR.CountingSource.KINDS[1:]:
        o = TR.run(base.t, base.d, strict=True, cc=base.cc, enc=base.enc, source_kind=kind)
        rec.count("source_kind_runs")
        if not same_trace(whole, o):
            rec.violation("source-kind", kind, f"{base.short()}\nresult with a {kind} source differs from the result with a counting iterator: {o.outcome} vs {whole.outcome}, {len(o.events)} vs {len(whole.events)} events", base.replay())
    # prefixes
    spans = []
    pos = 0
    for ev in whole.mevents:
        if ev.value is not None and isinstance(ev.chunk, bytes):
            spans.append((pos, pos + len(ev.chunk)))
            pos += len(ev.chunk)
        else:
            spans.append(None)
    cuts = list(range(len(base.d)))
    if not thorough and len(cuts) > 40:
        cuts = sorted(set(rng.sample(cuts, 36) + [0, 1, len(base.d) - 1, len(base.d) - 2]))
    # warn mode reads the same way: one byte of look-ahead, prefix-stable
    whole_w = TR.run(base.t, base.d, strict=False, cc=base.cc, enc=base.enc)
    rec.count("warn_mode_runs")
    lookahead(whole_w, rec, cases.Case(base.t, base.d, base.cc, base.enc, origin=base.origin, fault=dict(kind="mode", mode="warn"), sig=base.sig))
    if not same_trace(whole, whole_w):
        rec.violation("mode", "warn-differs-on-well-formed", f"{base.short()}\nwarn mode on the well-formed input: {len(whole_w.events)} events / {whole_w.outcome}, strict: {len(whole.events)} / {whole.outcome}", base.replay())
    for cut in cuts:
        fc = cases.Case(base.t, base.d[:cut], base.cc, base.enc, origin=base.origin, fault=dict(kind="cut", at=cut, of=len(base.d)), sig=("cut", base.sig, cut))
        if thorough or cut % 2 == 0 or cut >= len(base.d) - 2:
            tw = TR.run(fc.t, fc.d, strict=False, cc=fc.cc, enc=fc.enc)
            rec.count("warn_mode_runs")
            fw = cases.Case(fc.t, fc.d, fc.cc, fc.enc, origin=fc.origin, fault=dict(fc.fault, mode="warn"), sig=fc.sig)
            if tw.outcome[0] in ("ok", "depleted"):
                lookahead(tw, rec, fw)
                nw = len(tw.mevents)
                okw = nw <= len(whole.mevents) and all(
                    (a.path, a.tname, a.value, a.vclass) == (b.path, b.tname, b.value, b.vclass) for a, b in zip(tw.mevents, whole.mevents))
                done = 0
                for i, sp in enumerate(spans):
                    if sp is not None and sp[1] <= cut:
                        done = i + 1
                if not okw:
                    rec.violation("prefix", "warn:not-a-prefix", f"{fw.short()}\nwarn mode: events of the prefix are not a prefix of the events of the whole input", fw.replay(mode="warn", whole=base.d.hex()))
                elif nw < done:
                    rec.violation("prefix", "warn:complete-field-missing", f"{fw.short()}\nwarn mode: field #{done - 1} {whole.mevents[done - 1]!r} is complete in the prefix but only {nw} field events were emitted", fw.replay(mode="warn", whole=base.d.hex()))
            else:
                rec.count(f"warn_prefix_outcome_{tw.okind()}")
        t = TR.run(fc.t, fc.d, strict=True, cc=fc.cc, enc=fc.enc)
        rec.case(fc.sig, nontrivial=True)
        lookahead(t, rec, fc)
        # the prefix from another kind of source (sized ones - bytes, bytearray, list - in particular): same events, same outcome
        kinds = TR.CountingSource.KINDS[1:]
        kind = kinds[(cut + len(base.d)) % len(kinds)]
        o = TR.run(fc.t, fc.d, strict=True, cc=fc.cc, enc=fc.enc, source_kind=kind)
        rec.count("prefix_source_kind_runs")
        if not same_trace(t, o):
            rec.violation("source-kind", f"prefix:{kind}", f"{fc.short()}\nthe prefix from a {kind} source: {len(o.events)} events / {o.outcome[0]}, from a counting iterator: {len(t.events)} events / {t.outcome[0]}", fc.replay(source=kind))
        # prefix stability
        n = len(t.mevents)
        ok = n <= len(whole.mevents) and all(
            (a.path, a.tname, a.value, a.vclass) == (b.path, b.tname, b.value, b.vclass) for a, b in zip(t.mevents, whole.mevents))
        if not ok:
            rec.violation("prefix", "not-a-prefix", f"{fc.short()}\nevents of the prefix are not a prefix of the events of the whole input", fc.replay())
            continue
        # every field complete in the prefix is emitted
        complete = 0
        for i, sp in enumerate(spans):
            if sp is not None and sp[1] <= cut:
                complete = i + 1
        if base.t == "CommandResponseStream" and t.outcome[0] == "ok":
            pass
        elif n < complete:
            rec.violation("prefix", "complete-field-missing", f"{fc.short()}\nfield #{complete - 1} {whole.mevents[complete - 1]!r} is complete in the prefix but only {n} events were emitted before {t.outcome}", fc.replay())
        if t.outcome[0] not in ("depleted",) and not (base.t == "CommandResponseStream" and t.outcome[0] == "ok"):
            rec.count(f"prefix_outcome_{t.okind()}")


def run_shard(shard, rec):
    rng = random.Random(f"{shard.get('seed', 0)}:C10:{shard['name']}")
    thorough = shard.get("tier") == "thorough"
    with probes.Anchors(ANCHORS, rec):
        if shard["kind"] == "front":
            for s, msgs in cases.stream_cases(rng, shard["n"], max_pairs=3):
                c15.lazy_checks(s, msgs, rng, rec)
            return
        for base in _strict.base_cases(shard, rng):
            check_base(base, rec, rng, thorough)
    rec.sample(dict(shard=shard["name"], distances={k: v for k, v in rec.counters.items() if k.startswith("distance_")}))


def finish(m, tier):
    inc = probes.missing(m, ANCHORS)
    for k in ("warn_mode_runs", "events_checked", "distance_1", "distance_0", "source_kind_runs", "lazy_hex_events", "lazy_swtpm_events", "lazy_hex_cut_runs", "lazy_swtpm_cut_runs", "lazy_files_events", "bufferedreader_runs", "multi_file_runs_with_empty_inner_file"):
        if not m["counters"].get(k):
            inc.append(f"no {k}")
    return dict(inconclusive=inc)


def replay(r, rec):
    case = cases.Case.from_replay(r)
    if r.get("lazy"):
        c15.replay_lazy(r, rec)
        return
    if r.get("whole"):
        base = cases.Case(case.t, bytes.fromhex(r["whole"]), case.cc, case.enc, origin=case.origin, sig=("replay",))
        check_base(base, rec, random.Random(0), True)
        return
    if case.fault and case.fault.get("mode") == "warn":
        t = TR.run(case.t, case.d, strict=False, cc=case.cc, enc=case.enc)
        lookahead(t, rec, case)
        return
    if case.fault and case.fault.get("kind") == "cut":
        t = TR.run(case.t, case.d, strict=True, cc=case.cc, enc=case.enc)
        lookahead(t, rec, case)
        if r.get("source"):
            o = TR.run(case.t, case.d, strict=True, cc=case.cc, enc=case.enc, source_kind=r["source"])
            if not same_trace(t, o):
                rec.violation("source-kind", f"prefix:{r['source']}", f"the prefix from a {r['source']} source: {len(o.events)} events / {o.outcome[0]}, from a counting iterator: {len(t.events)} events / {t.outcome[0]}", r)
    else:
        check_base(case, rec, random.Random(0), True)
