"""C02 - re-encoding the events of a decodable input reproduces the input bytes.

Conservation law over the boundary trace: each primitive event re-encodes to the input slice at its running
offset with the pinned width, structural / warning events to nothing, the concatenation is the input; in warn
mode whenever every reported problem is an out-of-range value.  An icontract post-condition on the two
serialisation leaf functions runs underneath.
"""
import random

from .. import cases, contracts, gen, layout, oracles
from .. import trace as TR
from . import _strict

PROPERTY = "C02"
LEVEL = "exploration"
RULE = (
    "every input accepted by strict decoding among: generated encodings of all non-union types (incl. signed, 64-bit, "
    "named-range and enum-backed leaves), all command codes x directions x configurations, the captured corpus, and whichever near misses of these (bytes appended, single bytes changed) strict decoding accepts; plus "
    "value-corrupted variants decoded in warn mode whenever every warning is a value warning; per event the re-encoded "
    "chunk is compared with the input slice at the running offset and with the pinned width; the encoder is fed with a list, a tuple, a one-shot iterator, the live decoder and a generator of the primitive events only; warn-mode variants include two different out-of-range values in two fields of the same type, their collected event lists are re-encoded as a list after the decode and once more after up to 40 further decodes in the same process; thorough: the repository's own test suite runs with a monitor around every decode it makes (look-ahead, round trip of clean completions, held events); distinct = distinct (type/code, "
    "configuration or fault, event count) cases"
)
ASSUMPTIONS = ["pinned widths", "contract layer (icontract) is supplementary; the trace law decides"]


def plan(tier, seed):
    types = cases.non_union_types()
    ccs = gen.ccs()
    q = tier == "quick"
    n = 5 if q else 12
    shards = []
    for i in range(n):
        shards.append(dict(name=f"struct{i}", kind="struct", types=types[i::n], per_type=4 if q else 60, sweep=True))
        shards.append(dict(name=f"msg{i}", kind="msg", ccs=ccs[i::n], n_configs=3 if q else 12))
    for i in range(2 if q else 6):
        shards.append(dict(name=f"corpus{i}", kind="corpus", start=i, step=(2 if q else 6) * (12 if q else 1)))
    if not q:
        # the repository's own tests as a workload: every decode they make runs under the boundary monitors
        shards.append(dict(name="repo-tests", kind="repo-tests", timeout_s=1500))
    return shards


def check_accepted(case, rec):
    t = TR.run(case.t, case.d, strict=True, cc=case.cc, enc=case.enc)
    if t.outcome[0] != "ok":
        rec.count(f"strict_{t.okind()}")
        return False
    rec.case(("strict", case.sig), nontrivial=bool(case.d))
    rec.count("accepted")
    rec.count("chunks", len(t.events))
    for ev in t.mevents:
        if ev.value is not None and ev.value < 0:
            rec.count("negative_values")
        if ev.value is not None and isinstance(ev.chunk, bytes) and len(ev.chunk) == 8:
            rec.count("64bit_fields")
    for rule, mech, msg in oracles.chunks_conservation(case, None, t):
        rec.violation(rule, mech, f"{case.short()}\n{msg}", case.replay(mode="strict"))
    # the public API, too
    from tpmstream.io.binary import Binary

    joined = b"".join(Binary.unmarshal([e.raw for e in t.events]))
    if joined != case.d:
        rec.violation("concat", "unmarshal-join", f"{case.short()}\nb''.join(Binary.unmarshal(events)) = {joined.hex()[:80]} != input", case.replay(mode="strict"))
    # the encoder takes any iterable of events: a one-shot iterator, the live decoder piped straight into it (what
    # `convert --out binary` does), a lazily filtered range that starts at a primitive
    raw = [e.raw for e in t.events]
    feeds = (("an iterator", lambda: iter(raw)), ("the live decoder", lambda: TR.open_decode(case.t, case.d, True, case.cc, case.enc)),
             ("a generator of the primitive events only", lambda: (e for e in raw if e.value is not ...)), ("a tuple", lambda: tuple(raw)))
    for label, make in feeds:
        try:
            got = b"".join(Binary.unmarshal(make()))
        except Exception as e:
            rec.violation("encoder-feed", f"raises:{label.split()[-1]}", f"{case.short()}\nBinary.unmarshal fed with {label} raised {type(e).__name__}: {e}", case.replay(mode="strict"))
            continue
        rec.count("encoder_feeds")
        if got != case.d:
            rec.violation("encoder-feed", label.split()[1] if label.startswith("a ") else "live", f"{case.short()}\nBinary.unmarshal fed with {label} gives {got.hex()[:120]!r}, fed with a list it gives the input", case.replay(mode="strict"))
    if rec.counters.get("accepted", 0) % 4 == 0:
        RETAINED.append((case, t, "strict"))
    return True


def check_warn(case, rec):
    t = TR.run(case.t, case.d, strict=False, cc=case.cc, enc=case.enc)
    if t.outcome[0] != "ok" or not t.warnings:
        return
    if any(w.err["cls"] != "ValueConstraintViolatedError" for w in t.warnings):
        rec.count("warn_other_problems")
        return
    rec.case(("warn", case.sig), nontrivial=True)
    rec.count("warn_value_only")
    if len(t.warnings) >= 2:
        rec.count("warn_several_value_warnings")
    for rule, mech, msg in oracles.chunks_conservation(case, None, t):
        rec.violation(rule, "warn:" + mech, f"{case.short()}\n{msg}", case.replay(mode="warn"))
    # what a caller does: collect the events, then re-encode the list
    late_reencode(case, t, rec, "warn", "after the decode")
    RETAINED.append((case, t, "warn"))


RETAINED = []  # (case, trace, mode) of earlier decodes of this process whose event lists are re-encoded again later


def late_reencode(case, t, rec, mode, when):
    from tpmstream.io.binary import Binary

    rec.count("late_reencodes")
    try:
        joined = b"".join(Binary.unmarshal([e.raw for e in t.events]))
    except Exception as e:
        rec.violation("late-reencode", f"{mode}:raises", f"{case.short()}\nre-encoding the collected event list {when} raises {type(e).__name__}: {e}", case.replay(mode=mode))
        return
    if joined != case.d:
        i = next((k for k, (a, b) in enumerate(zip(joined, case.d)) if a != b), min(len(joined), len(case.d)))
        rec.violation("late-reencode", f"{mode}:differs", f"{case.short()}\nthe collected event list re-encoded {when} gives {joined.hex()[:120]} - differs from the input at byte {i} "
                                                          f"(at emission every event re-encoded to its input slice)", case.replay(mode=mode))


def recheck_retained(rec):
    """Event lists kept from earlier decodes must still re-encode to their inputs after other inputs were decoded."""
    for case, t, mode in RETAINED:
        late_reencode(case, t, rec, mode, f"after {len(RETAINED)} further decodes in the same process")
    rec.count("retained_lists_rechecked", len(RETAINED))
    del RETAINED[:]


def run_repo_tests(shard, rec):
    """pytest on the repository's tests with vt.repo_tests_plugin loaded; its observations are judged here."""
    import glob
    import json
    import os
    import subprocess
    import tempfile

    from .. import env

    root = os.path.dirname(env.SRC)
    tests = os.path.join(root, "test") if os.path.isdir(os.path.join(root, "test")) else "/repo/test"
    tmp = tempfile.mkdtemp(prefix="vt_c02_repo_")
    out = os.path.join(tmp, "obs")
    try:
        e = env.child_env({"VT_REPO_TESTS_OUT": out})
        r = subprocess.run([env.PYTHON, "-m", "pytest", "-q", "-p", "no:cacheprovider", "-p", "vt.repo_tests_plugin", "-n", "8", "--continue-on-collection-errors", tests],
                           cwd=os.path.dirname(tests), env=e, capture_output=True, text=True, timeout=1400)
        tail = (r.stdout.strip().splitlines() or [""])[-1]
        rec.sample(dict(pytest=tail))
        files = glob.glob(out + ".*")
        total = {}
        for f in files:
            d = json.load(open(f))
            for k, v in d["counts"].items():
                total[k] = total.get(k, 0) + v
            for v in d["violations"]:
                if v["rule"] == "monitor-error":
                    rec.inconclusive_because(f"repository-tests monitor error: {v['message']}")
                    continue
                rec.violation("repo-tests:" + v["rule"], v["rule"], f"{v['test']}\n{v['tpm_type']} strict={v['strict']} code={v['command_code']} pulled={v['pulled'][:160]}\n{v['message']}",
                              dict(kind="repo-tests", test=v["test"], pulled=v["pulled"], tpm_type=v["tpm_type"], strict=v["strict"]))
        for k, v in total.items():
            rec.count(f"repo_tests_{k}", v)
        rec.case(("repo-tests", total.get("decodes", 0)), nontrivial=True, n=max(1, total.get("decodes", 0)))
        if not files:
            rec.inconclusive_because(f"the repository tests left no observations ({tail})")
    finally:
        import shutil

        shutil.rmtree(tmp, ignore_errors=True)


def run_shard(shard, rec):
    if shard.get("kind") == "repo-tests":
        run_repo_tests(shard, rec)
        return
    rng = random.Random(f"{shard.get('seed', 0)}:C02:{shard['name']}")
    active = contracts.install()
    rec.count("contract_layer_active" if active else "contract_layer_missing")
    for base in _strict.base_cases(shard, rng, hostile=rec):
        try:
            ok = check_accepted(base, rec)
            if ok and base.d:
                bref = base.ref()
                if bref.outcome.kind == "ok":
                    for fc in cases.value_faults(base, bref, rng, limit=1 if shard.get("tier") != "thorough" else 4):
                        check_warn(fc, rec)
                    # "every input that strict decoding accepts" is more than what a generator calls well-formed: near
                    # misses of well-formed inputs (zeros / ones / a copy of the head appended, single bytes changed) are
                    # decoded too, and whichever of them strict mode accepts must re-encode to itself
                    if rec.counters.get("bases_with_near_misses", 0) < 4000 and rec.evaluations % 3 == 0:
                        rec.count("bases_with_near_misses")
                        near = [base.d + b"\x00" * k for k in (1, 2, 4, 8)] + [base.d + b"\xff\xff\xff\xff", base.d + base.d[:4], base.d[:-1]]
                        for _ in range(3):
                            b = bytearray(base.d)
                            b[rng.randrange(len(b))] ^= rng.choice((0x01, 0x80, 0xFF, 0x10))
                            near.append(bytes(b))
                        for nb in near:
                            rec.count("near_misses_decoded")
                            nc = cases.Case(base.t, nb, base.cc, base.enc, origin=base.origin + " near-miss", sig=("near", base.sig, len(nb), nb[-4:].hex()))
                            if check_accepted(nc, rec):
                                rec.count("near_misses_accepted")
                    for fc in cases.twin_value_faults(base, bref, rng, limit=1 if shard.get("tier") != "thorough" else 3):
                        rec.count("twin_value_faults")
                        check_warn(fc, rec)
                    if len(RETAINED) >= 40:
                        recheck_retained(rec)
        except contracts.ContractBroken as e:
            rec.violation("contract", "post-condition", f"{base.short()}\n{e}", base.replay(mode="strict"))
    recheck_retained(rec)
    for k, v in contracts.COUNTS.items():
        rec.count(f"contract_evals_{k}", v)
    rec.sample(dict(case=base.short()))


def finish(m, tier):
    inc = []
    if tier == "thorough" and not m["counters"].get("repo_tests_completed_clean"):
        inc.append("the repository's tests were not observed under the monitors")
    for k in ("near_misses_accepted", "encoder_feeds", "accepted", "warn_value_only", "negative_values", "64bit_fields", "twin_value_faults", "warn_several_value_warnings", "retained_lists_rechecked"):
        if not m["counters"].get(k):
            inc.append(f"no case of {k}")
    if m["counters"].get("contract_layer_active") and not m["counters"].get("contract_evals_int_to_bytes"):
        inc.append("contract layer installed but never evaluated")
    return dict(inconclusive=inc)


def replay(r, rec):
    if r.get("kind") == "repo-tests":
        run_repo_tests(dict(name="repo-tests"), rec)
        return
    case = cases.Case.from_replay(r)
    if r.get("mode") == "warn":
        check_warn(case, rec)
    else:
        check_accepted(case, rec)
