"""C05 - input length mismatches are reported as depleted / superfluous, never absorbed.

Fault enumeration over crash points: every truncation point 0..len-1 of generated messages, structures and
streams, and appended suffixes.  Oracle: the reference's spans say which fields are complete in the prefix and
where message boundaries are.
"""
import random

from .. import cases, oracles, probes
from .. import trace as TR
from . import _strict

PROPERTY = "C05"
LEVEL = "fault_enumeration"
RULE = (
    "every truncation point 0..len-1 (including the empty input) of generated structures, commands, responses and streams, "
    "and suffixes of 1, 2 and 4 random bytes; strict outcome must be InputStreamBytesDepletedError after exactly the events "
    "of the complete fields (trailing byte-less structural events free), resp. InputStreamSuperfluousBytesError carrying "
    "exactly the suffix; the command_code attribute must be the code of the command decoded so far; a stream may end cleanly "
    "only at a message boundary; distinct = distinct (type/code, cut position, length) cases"
)
ASSUMPTIONS = [
    "command_code of a stand-alone Response may be None or the supplied code; inside the header of a later command of a stream it may be None or the previous command's code",
    "an overrun whose region ends beyond the input may surface as depleted",
]
KINDS = oracles.LENGTH_KINDS
ANCHORS = probes.PUMP[:2]


def plan(tier, seed):
    q = tier == "quick"
    shards = _strict.plan_bases(tier, quick_msgs_cfgs=1, thorough_cfgs=5, struct_per_type=(1, 3), corpus_step=(200, 20))
    ns = 4 if q else 12
    for i in range(ns):
        shards.append(dict(name=f"stream{i}", kind="stream", n=3 if q else 25, max_pairs=3))
    return shards


def run_shard(shard, rec):
    rng = random.Random(f"{shard.get('seed', 0)}:C05:{shard['name']}")
    with probes.Anchors(ANCHORS, rec):
        for base in _strict.base_cases(shard, rng):
            bref = base.ref()
            if bref.outcome.kind != "ok":
                continue
            rec.count("bases")
            rec.count(f"bases_{base.t if base.t in ('Command', 'Response', 'CommandResponseStream') else 'struct'}")
            boundaries = {m.start for m in bref.messages} | {m.end for m in bref.messages if m.end is not None}
            for fc in list(cases.cut_faults(base)) + list(cases.suffix_faults(base, rng)):
                ref, t, kind = _strict.evaluate(fc, rec, KINDS + ("ok",))
                rec.case(fc.sig, nontrivial=True)
                for rule, mech, msg in oracles.length_cc(fc, ref, t):
                    rec.violation(rule, mech, f"{fc.short()}\n{msg}", fc.replay())
                # the same truncation / suffix from another kind of source (sized ones included): same outcome, same
                # surplus bytes, same command code
                if fc.fault["kind"] == "suffix" or rec.evaluations % 7 == 0:
                    kinds = TR.CountingSource.KINDS[1:]
                    kind = kinds[rec.evaluations % len(kinds)]
                    t2 = TR.run(fc.t, fc.d, strict=True, cc=fc.cc, enc=fc.enc, source_kind=kind)
                    rec.count("other_source_kind_runs")
                    key = lambda o: (o[0], {k: v for k, v in o[1].items() if k != "str"}) if o[0] == "constraint" else o  # (the first decode may be rooted elsewhere: texts differ)
                    if key(t2.outcome) != key(t.outcome) or len(t2.events) != len(t.events):
                        show = lambda o: (o[0], o[1].hex() if isinstance(o[1], bytes) else o[1]) + tuple(o[2:]) if o[0] == "superfluous" else o[:2]
                        rec.violation("source-kind", f"{kind}:{t.outcome[0]}", f"{fc.short()}\nfrom a {kind} source: {show(t2.outcome)} after {len(t2.events)} events; from a counting iterator: {show(t.outcome)} after {len(t.events)} events", dict(fc.replay(), source=kind))
                if t.unstable:
                    rec.violation("surplus-not-carried", "read-twice", f"{fc.short()}\n{t.unstable}", fc.replay())
                if t.outcome[0] == "superfluous":
                    rec.count("surplus_read_twice")
                if t.outcome[0] in ("depleted", "superfluous"):
                    rec.count(f"cc_attr_{'set' if t.outcome[-1] is not None else 'none'}")
                if fc.fault["kind"] == "cut":
                    if fc.t == "CommandResponseStream":
                        at_boundary = fc.fault["at"] in boundaries
                        rec.count("stream_cut_at_boundary" if at_boundary else "stream_cut_inside")
                        if t.outcome[0] == "ok" and not at_boundary:
                            rec.violation("stream-end", "clean-end-inside-message", f"{fc.short()}\nstream ended cleanly at byte {fc.fault['at']}, boundaries are {sorted(boundaries)}", fc.replay())
                    if fc.fault["at"] == 0:
                        rec.count("empty_inputs")
            rec.sample(dict(case=base.short(), cuts=len(base.d)), cap=3)


def finish(m, tier):
    inc = probes.missing(m, ANCHORS)
    for k in ("ref_depleted", "ref_superfluous", "empty_inputs", "stream_cut_at_boundary", "stream_cut_inside", "cc_attr_set", "cc_attr_none", "other_source_kind_runs"):
        if not m["counters"].get(k):
            inc.append(f"no case of {k}")
    return dict(inconclusive=inc)


def replay(r, rec):
    case = cases.Case.from_replay(r)
    ref, t, kind = _strict.evaluate(case, rec, KINDS + ("ok",))
    for rule, mech, msg in oracles.length_cc(case, ref, t):
        rec.violation(rule, mech, msg, r)
    if t.unstable:
        rec.violation("surplus-not-carried", "read-twice", t.unstable, r)
