"""C06 - decoding arbitrary bytes terminates with a documented outcome.

Outcome-class monitor at the API boundary: any exception escaping strict ``Binary.marshal`` other than the
constraint-violation errors, depleted and superfluous is a violation, keyed by mechanism (exception class +
innermost tpmstream frame).  Termination: logical step cap per decode (violation) and a wall-clock watchdog
(inconclusive).
"""
import random

from .. import cases, corpus, gen, layout
from .. import trace as TR
from . import _strict

PROPERTY = "C06"
LEVEL = "exploration"
RULE = (
    "random byte strings (length 0..96) for every non-union type, Command, Response (every command code, both encryption "
    "flags) and streams; 1-4 byte mutations, splices and truncations of corpus / generated messages; every message decoded "
    "as the wrong type (all non-union types; responses under all 117 codes x both flags); all small-alphabet strings for the "
    "nested size-prefixed types; the `type` sub-command's parse_all_types as one more consumer; one evaluation = one strict "
    "decode whose outcome class is recorded; distinct = distinct (type, code, flag, outcome class, input length bucket) "
    "combinations observed, non-trivial when at least one byte was consumed"
)
ASSUMPTIONS = [
    "Response with command_code=None is exercised, too (after D18 it must end in ValueConstraintViolatedError when the response is successful)",
    "step cap: events <= 64*(len(input)+16) per decode; exceeding it is a violation, the wall-clock watchdog is inconclusive",
]


def plan(tier, seed):
    q = tier == "quick"
    shards = []
    n = 5 if q else 16
    for i in range(n):
        shards.append(dict(name=f"random{i}", kind="random", n=1500 if q else 30000))
        shards.append(dict(name=f"mutate{i}", kind="mutate", n=500 if q else 10000, start=i, step=n))
        shards.append(dict(name=f"wrongtype{i}", kind="wrongtype", n=12 if q else 150, start=i, step=n))
    L, parts = (4, 3) if q else (6, 12)
    for p in range(parts):
        shards.append(dict(name=f"small{p}", kind="small", L=L, part=p, parts=parts))
    shards.append(dict(name="type-subcommand", kind="typecmd", n=6 if q else 60))
    # generated encodings of every type with every selector value (and light mutations of them): byte strings, too
    types = cases.non_union_types()
    nw = 3 if q else 8
    for i in range(nw):
        shards.append(dict(name=f"generated{i}", kind="generated", types=types[i::nw], per_type=2 if q else 20))
    return shards


def observe(rec, tname, data, cc=None, enc=None, T=None, origin=""):
    t = TR.run(T or tname, data, strict=True, cc=cc, enc=enc)
    k = t.outcome[0]
    okind = t.okind()
    rec.case((tname, cc if tname == "Response" else None, enc, okind, min(len(data) // 8, 12)), nontrivial=t.pulls > 0)
    rec.count(f"outcome_{okind}")
    if k == "internal":
        rec.violation("internal-error", t.outcome[1],
                      f"{dict(t=tname, cc=cc, enc=enc, hex=data.hex()[:200], origin=origin)}\n{t.outcome[1]}: {t.outcome[2]}",
                      dict(t=tname, d=data.hex(), cc=cc, enc=enc, origin=origin))
    elif k == "capped":
        rec.violation("step-cap", "does-not-terminate", f"{tname} {data.hex()[:200]}: more than {64 * (len(data) + 16)} events", dict(t=tname, d=data.hex(), cc=cc, enc=enc))
    if t.pulls > len(data):
        rec.violation("over-pull", "pulls", f"{tname}: pulled {t.pulls} > {len(data)}", dict(t=tname, d=data.hex(), cc=cc, enc=enc))
    return t


def mutate(rng, b, pool):
    b = bytearray(b)
    r = rng.random()
    if r < 0.55 and b:
        for _ in range(rng.randint(1, 4)):
            i = rng.randrange(len(b))
            b[i] = rng.choice((0, 1, 0xFF, 0x80, rng.randrange(256), b[i] ^ (1 << rng.randrange(8))))
    elif r < 0.75 and b:
        other = rng.choice(pool)
        i, j = rng.randrange(len(b) + 1), rng.randrange(len(other) + 1)
        b = b[:i] + bytearray(other[j:])
    elif r < 0.9 and b:
        b = b[: rng.randrange(len(b))]
    else:
        i = rng.randrange(len(b) + 1)
        b = b[:i] + bytearray(rng.randrange(256) for _ in range(rng.randint(1, 6))) + b[i:]
    return bytes(b)


def run_shard(shard, rec):
    rng = random.Random(f"{shard.get('seed', 0)}:C06:{shard['name']}")
    P = layout.pinned()
    types = cases.non_union_types(P)
    ccs = gen.ccs(P)
    k = shard["kind"]
    if k == "random":
        for i in range(shard["n"]):
            r = rng.random()
            n = rng.choice((0, 1, 2, 3, 4, 6, 10, 12, 16, 24, 40, 96))
            data = bytes(rng.choice((0, 0, 1, 2, 0x80, 0xFF, rng.randrange(256))) for _ in range(n))
            if r < 0.5:
                observe(rec, rng.choice(types), data, origin="random")
            elif r < 0.7:
                head = rng.choice((b"\x80\x01", b"\x80\x02")) + (len(data) + 6).to_bytes(4, "big")
                observe(rec, "Command", head + data if rng.random() < 0.7 else data, origin="random")
            elif r < 0.9:
                head = rng.choice((b"\x80\x01", b"\x80\x02")) + (len(data) + 10).to_bytes(4, "big") + b"\0\0\0\0"
                observe(rec, "Response", head + data if rng.random() < 0.8 else data, cc=rng.choice(ccs), enc=rng.choice((None, True)), origin="random")
            elif r < 0.94:
                observe(rec, "CommandResponseStream", data, origin="random")
            elif r < 0.97:
                # a failed response that nevertheless carries a body, with exactly consistent sizes
                k = rng.choice((0, 0, 1, 4))
                body = rng.choice((b"", (k).to_bytes(4, "big") + bytes(k), (k).to_bytes(4, "big") + bytes(k) + b"\0\0" + bytes([rng.randrange(256)]) + b"\0\0", data))
                rc = rng.choice(gen.FAIL_CODES)
                msg = rng.choice((b"\x80\x01", b"\x80\x02", b"\x00\xc4")) + (10 + len(body)).to_bytes(4, "big") + (rc & 0xFFFFFFFF).to_bytes(4, "big") + body
                observe(rec, "Response", msg, cc=rng.choice(ccs), enc=rng.choice((None, True)), origin="failed-response-with-body")
            else:
                # a response decoded without any command code
                head = rng.choice((b"\x80\x01", b"\x80\x02")) + (len(data) + 10).to_bytes(4, "big") + rng.choice((b"\0\0\0\0", b"\0\0\1\1"))
                observe(rec, "Response", head + data, cc=None, enc=None, origin="no-command-code")
    elif k == "mutate":
        pk = corpus.packets()
        pool = [b for _f, _i, b in pk[shard["start"] :: shard["step"] * 3]]
        g = gen.Gen(rng)
        for _ in range(40):
            (cb, _e, _i), (rb, _e2, _i2) = g.pair(rng.choice(ccs))
            pool += [cb, rb]
        for i in range(shard["n"]):
            b = mutate(rng, rng.choice(pool), pool)
            r = rng.random()
            if r < 0.4:
                observe(rec, "Command", b, origin="mutated")
            elif r < 0.8:
                cc = int.from_bytes(b[6:10], "big") if rng.random() < 0.3 and len(b) >= 10 else rng.choice(ccs)
                if cc not in ccs:
                    cc = rng.choice(ccs)
                observe(rec, "Response", b, cc=cc, enc=rng.choice((None, None, True)), origin="mutated")
            else:
                observe(rec, "CommandResponseStream", b + mutate(rng, rng.choice(pool), pool), origin="mutated")
    elif k == "wrongtype":
        prs = corpus.pairs()[shard["start"] :: shard["step"]]
        picks = rng.sample(prs, min(shard["n"], len(prs)))
        for _f, c, r in picks:
            for tn in types:
                observe(rec, tn, rng.choice((c, r)), origin="wrong-type")
            for cc in ccs:
                for enc in (None, True):
                    observe(rec, "Response", r, cc=cc, enc=enc, origin="wrong-code")
            observe(rec, "Response", c, cc=rng.choice(ccs), origin="wrong-type")
            observe(rec, "Command", r, origin="wrong-type")
    elif k == "generated":
        pool = []
        for case in cases.struct_cases(shard["types"], rng, shard["per_type"], sweep=True):
            observe(rec, case.t, case.d, origin="generated")
            pool.append(case.d)
            if case.d:
                observe(rec, case.t, mutate(rng, case.d, pool[-20:] or [case.d]), origin="generated-mutated")
    elif k == "small":
        for case, T, _P in _strict.small_cases(shard["L"], shard["part"], shard["parts"]):
            observe(rec, case.t, case.d, T=T, origin="small")
    elif k == "typecmd":
        from tpmstream.__main__ import parse_all_types
        from tpmstream.io.binary import Binary

        prs = corpus.pairs()
        for _f, c, r in rng.sample(prs, shard["n"]):
            for b in (c, r):
                try:
                    found = list(parse_all_types(Binary, b))
                    rec.case(("typecmd", len(found)), nontrivial=True)
                    rec.count("typecmd_runs")
                    rec.count("typecmd_types_found", len(found))
                except Exception as e:
                    rec.case(("typecmd", "exc"))
                    rec.violation("internal-error", "type-subcommand:" + TR.mechanism(e), f"parse_all_types on {b.hex()[:160]}: {type(e).__name__}: {e}", dict(t="typecmd", d=b.hex()))
    rec.sample(dict(shard=shard["name"], outcomes={k: v for k, v in rec.counters.items() if k.startswith("outcome_")}))


def finish(m, tier):
    inc = []
    for k in ("outcome_ok", "outcome_depleted", "outcome_superfluous", "outcome_ValueConstraintViolatedError",
              "outcome_SizeConstraintExceededError", "outcome_SizeConstraintSubceededError",
              "outcome_AnticipatedSizeConstraintExceededError", "typecmd_runs"):
        if not m["counters"].get(k):
            inc.append(f"no decode ended in {k}")
    return dict(inconclusive=inc)


def replay(r, rec):
    if r.get("t") == "typecmd":
        from tpmstream.__main__ import parse_all_types
        from tpmstream.io.binary import Binary

        try:
            list(parse_all_types(Binary, bytes.fromhex(r["d"])))
        except Exception as e:
            rec.violation("internal-error", "type-subcommand:" + TR.mechanism(e), f"{type(e).__name__}: {e}", r)
        return
    T = None
    if r.get("origin") == "small":
        classes, _P = _strict.synthetic()
        T = classes.get(r["t"])
    observe(rec, r["t"], bytes.fromhex(r["d"]), cc=r.get("cc"), enc=r.get("enc"), T=T, origin=r.get("origin", ""))
