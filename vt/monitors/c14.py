"""C14 - the printers show every event and every byte exactly once, in order.

Row model computed from the recorded events alone and compared line by line (colour codes stripped, blanks
collapsed) with what ``Pretty.unmarshal`` / ``Events.unmarshal`` print for event streams the decoder produced
in either mode.
"""
import random
import re

from .. import cases, layout
from .. import trace as TR
from . import _strict

PROPERTY = "C14"
LEVEL = "exploration"
RULE = (
    "event streams of well-formed generated messages / structures / corpus packets (strict) and of their size-, value-, "
    "truncation- and suffix-faulted variants (warn mode), incl. failed responses of every response-code format, lists of "
    "structures, empty lists and buffers followed by warnings; expected rows: one per structure / primitive / warning, one "
    "per byte buffer with all its bytes standing where its last element was, bit rows for attribute words that are not list "
    "elements, indentation = path depth (every fourth decode is rooted four levels down, so rows reach depth 13), value column = text form; failed responses of 12 response codes of every format and words of every attribute type printed back to back in one process (shuffled, reversed); a third of the completed decodes are also printed from a list, a tuple and directly from the live decoder (lazy pipeline) and must give the same lines; distinct = distinct (type/code, fault, mode, row count) cases"
)
ASSUMPTIONS = [
    "the row of a non-byte list parent may stand at its position or later; it is required when the list has no element rows",
    "bit rows of response codes are taken from TPM_RC.attributes() (validated independently by C18); bit rows of TPMA_* types from the pinned masks",
]
ANSI = re.compile(r"\x1b\[[0-9;]*m")
FILTER = bytes((c if 32 <= c < 127 else 46) for c in range(256))


def norm(s):
    return " ".join(ANSI.sub("", s).split())


def plan(tier, seed):
    shards = _strict.plan_bases(tier, quick_msgs_cfgs=2, thorough_cfgs=10, struct_per_type=(1, 8))
    # event streams printed one after the other in one process, chosen so that consecutive streams differ in exactly the
    # things a printer could carry over: response-code formats, attribute words of different widths, buffers and warnings
    shards.append(dict(name="sequences", kind="sequences", rounds=2 if tier == "quick" else 12))
    return shards


def row(tname, path, hexs, val):
    indent = "|   " * (len(path) - 1)
    name = path[-1][0] if path[-1][1] is None else f"{path[-1][0]}[{path[-1][1]}]"
    return norm(" ".join([tname or "", f"{indent}.{name}", hexs, val]))


def bit_rows(ev):
    """Expected bit rows of an attribute word event."""
    v = ev.raw.value
    P = layout.pinned()["types"]
    w = 8 * len(ev.chunk)
    rows = []
    if ev.vclass == "TPM_RC" or "TPM_RC" in [c.__name__ for c in type(v).__mro__]:
        attrs = [(a._name, a._value, a._details) for a in v.attributes()]
    else:
        d = P.get(ev.tname, {})
        if "bits" not in d:
            return None
        attrs = [(n, m, None) for n, m in sorted(d["bits"].items(), key=lambda kv: kv[1])]
    val = ev.value
    for name, mask, details in attrs:
        bits = "".join(str((val >> (w - 1 - k)) & 1) if (mask >> (w - 1 - k)) & 1 else "." for k in range(w))
        if details:
            bits = f"{bits} {details}"
        rows.append(norm("|   " * len(ev.path) + "." + name + " " + bits))
    return rows


def expected_rows(events):
    """List of entries: str (mandatory row) or ('OPT', str) (optional row of a non-byte list parent)."""
    rows = []
    i, n = 0, len(events)
    while i < n:
        e = events[i]
        if e.kind == "W":
            rows.append(norm(f"Warning: {e.raw.error}"))
            i += 1
            continue
        if e.value is None and e.tname.startswith("list["):
            if e.tname == "list[BYTE]":
                j, buf, pend = i + 1, b"", []
                while j < n:
                    c = events[j]
                    if c.kind == "W":
                        pend.append(norm(f"Warning: {c.raw.error}"))
                        j += 1
                        continue
                    if c.path[:-1] == e.path[:-1] and c.path[-1][0] == e.path[-1][0] and c.path[-1][1] is not None:
                        buf += c.chunk
                        j += 1
                    else:
                        break
                rows.append(row(e.tname, e.path, buf.hex(), buf.translate(FILTER).decode()))
                rows.extend(pend)
                i = j
                continue
            nxt = next((c for c in events[i + 1 :] if c.kind == "M"), None)
            has_children = nxt is not None and nxt.path[:-1] == e.path[:-1] and nxt.path[-1][0] == e.path[-1][0] and nxt.path[-1][1] is not None
            # a list parent may have its own row; it must have one when no element row shows it (else the event is not shown at all)
            rows.append(("OPT" if has_children else "LATE", row(e.tname, e.path, "", "")))
            i += 1
            continue
        if e.value is None:
            rows.append(row(e.tname, e.path, "", ""))
            i += 1
            continue
        rows.append(row(e.tname, e.path, e.chunk.hex(), format(e.raw.value, "")))
        if e.path[-1][1] is None and hasattr(e.raw.value, "attributes"):
            br = bit_rows(e)
            if br is not None:
                rows.extend(br)
        i += 1
    return rows


def check_pretty(t, case, mode, rec):
    from tpmstream.io.pretty import Pretty

    if any(not isinstance(e.chunk, bytes) for e in t.events):
        rec.count("event_not_re_encodable")  # C02's business; the row model needs the bytes
        return

    raw = [e.raw for e in t.events]
    try:
        got = [norm(l) for l in Pretty.unmarshal(iter(raw))]
    except Exception as ex:
        rec.violation("pretty-raises", TR.mechanism(ex), f"{case.short()} mode={mode}\nPretty.unmarshal raised {type(ex).__name__}: {ex}", case.replay(mode=mode))
        return
    exp = expected_rows(t.events)
    gi = 0
    pending = []  # optional rows (non-byte list parents): at their position or later, before they are forgotten
    owed = []  # rows of empty lists: at their position or later, but they must appear
    for r in exp:
        if isinstance(r, tuple):
            if gi < len(got) and got[gi] == r[1]:
                gi += 1
            else:
                pending.append(r[1])
                if r[0] == "LATE":
                    owed.append(r[1])
            continue
        while gi < len(got) and got[gi] != r and got[gi] in pending:
            pending.remove(got[gi])
            if got[gi] in owed:
                owed.remove(got[gi])
            gi += 1
        if gi >= len(got) or got[gi] != r:
            g = got[gi] if gi < len(got) else None
            kind = classify(r, g, exp, got, gi)
            rec.violation("pretty-row", kind, f"{case.short()} mode={mode}\nrow #{gi}: printed {g!r}\n expected {r!r}", case.replay(mode=mode))
            return
        gi += 1
    while gi < len(got) and got[gi] in pending:
        pending.remove(got[gi])
        if got[gi] in owed:
            owed.remove(got[gi])
        gi += 1
    if owed:
        rec.violation("pretty-row", "empty-list-not-shown", f"{case.short()} mode={mode}\nthe empty list {owed[0]!r} has no row at all", case.replay(mode=mode))
        return
    if gi != len(got):
        rec.violation("pretty-row", "extra-row", f"{case.short()} mode={mode}\nunexpected extra row {got[gi]!r}", case.replay(mode=mode))
        return
    rec.count("pretty_rows", len(got))
    rec.count("warning_rows", sum(1 for e in t.events if e.kind == "W"))
    rec.count("bit_rows", sum(1 for r in exp if isinstance(r, str) and re.search(r" [01.]{8,}( |$)", r)))
    rec.count("buffer_rows", sum(1 for e in t.events if e.kind == "M" and e.tname == "list[BYTE]"))


def classify(exp_row, got_row, exp, got, gi):
    if got_row is None:
        return "missing-row"
    if got_row.startswith("Warning:") and not str(exp_row).startswith("Warning:"):
        return "warning-before-its-buffer-row" if "list[BYTE]" in str(exp_row) else "warning-out-of-order"
    if str(exp_row).startswith("Warning:"):
        return "warning-row"
    if re.search(r" [01.]{8,}", str(exp_row)):
        return "bit-row"
    if "list[BYTE]" in str(exp_row):
        return "buffer-row"
    a, b = str(exp_row).split(), got_row.split()
    if a and b and a[0] != b[0]:
        return "type-column"
    return "row-content"


def check_events_printer(t, case, mode, rec):
    from tpmstream.io.events import Events

    raw = [e.raw for e in t.events]
    try:
        got = [norm(l) for l in Events.unmarshal(iter(raw))]
    except Exception as ex:
        rec.violation("events-printer-raises", TR.mechanism(ex), f"{case.short()} mode={mode}\nEvents.unmarshal raised {type(ex).__name__}: {ex}", case.replay(mode=mode))
        return
    if len(got) != len(raw):
        rec.violation("events-printer", "line-count", f"{case.short()} mode={mode}\n{len(got)} lines for {len(raw)} events", case.replay(mode=mode))
        return
    for e, line in zip(t.events, got):
        if e.kind == "M":
            val = "..." if e.value is None else format(e.raw.value, "")
            want = norm(f"{e.tname}{TR.pstr(e.path)} = {val}")
            if line.replace(" ", "") != want.replace(" ", ""):
                rec.violation("events-printer", "line-content", f"{case.short()} mode={mode}\nprinted {line!r} expected {want!r}", case.replay(mode=mode))
                return
        elif norm(str(e.raw.error)) not in line:
            rec.violation("events-printer", "warning-line", f"{case.short()} mode={mode}\nprinted {line!r} for {e!r}", case.replay(mode=mode))
            return
    rec.count("event_lines", len(got))


DEEP_ROOT = ".capture.file.exchange.message"


def check(case, rec, modes=(True, False), deep=None):
    for strict in modes:
        # every fourth decode is rooted four levels down: rows then reach depths no message has under the default root
        kw = {}
        if (rec.evaluations % 4 == 2) if deep is None else deep:
            from tpmstream.common.path import Path

            if "[deep root]" not in case.origin:
                case.origin += " [deep root]"

            kw = dict(marshal_kwargs=dict(root_path=Path.from_string(DEEP_ROOT)))
            rec.count("deep_rooted_decodes")
        t = TR.run(case.t, case.d, strict=strict, cc=case.cc, enc=case.enc, **kw)
        if kw:
            rec.count("rows_below_level_9", sum(1 for e in t.events if e.kind == "M" and len(e.path) > 10))
        if t.outcome[0] == "internal":
            rec.count("decoder_internal_error")
            continue
        mode = "strict" if strict else "warn"
        rec.case((case.sig, mode, len(t.events)), nontrivial=bool(t.events))
        check_pretty(t, case, mode, rec)
        check_events_printer(t, case, mode, rec)
        if t.outcome[0] == "ok" and not kw and rec.counters.get("pretty_rows", 0) % 3 == 0:
            check_feeds(t, case, strict, mode, rec)


def check_feeds(t, case, strict, mode, rec):
    """The printers are generators over any iterable of events: fed with a list, with an iterator, or directly with the
    live decoder (the lazy pipeline the command line uses) they must print the same lines."""
    from tpmstream.io.events import Events
    from tpmstream.io.pretty import Pretty

    raw = [e.raw for e in t.events]
    for name, printer in (("pretty", Pretty), ("events", Events)):
        try:
            a = [norm(l) for l in printer.unmarshal(iter(raw))]
            b = [norm(l) for l in printer.unmarshal(raw)]
            c = [norm(l) for l in printer.unmarshal(TR.open_decode(case.t, case.d, strict, case.cc, case.enc))]
            d = [norm(l) for l in printer.unmarshal(tuple(raw))]
        except Exception as ex:
            rec.violation("printer-feed", f"{name}:raises:{TR.mechanism(ex)}", f"{case.short()} mode={mode}\n{name} printer fed with a list / tuple / the live decoder raised {type(ex).__name__}: {ex}", case.replay(mode=mode))
            continue
        rec.count("printer_feed_comparisons")
        for label, other in (("a list", b), ("the live decoder", c), ("a tuple", d)):
            if other != a:
                i = next((k for k, (x, y) in enumerate(zip(a, other)) if x != y), min(len(a), len(other)))
                rec.violation("printer-feed", f"{name}:{label.split()[-1]}", f"{case.short()} mode={mode}\n{name} printer fed with {label} prints {len(other)} lines, fed with an iterator {len(a)}; first difference at line {i}: "
                                                                           f"{other[i] if i < len(other) else None!r} vs {a[i] if i < len(a) else None!r}", case.replay(mode=mode))
                break


RC_CODES = (0x100, 0x1C4, 0x101, 0x9A2, 0xB03, 0x500, 0x98E, 0x084, 0x2C3, 0x12F, 0xD21, 0x000)


def run_sequences(shard, rec):
    rng = random.Random(f"{shard.get('seed', 0)}:C14:sequences")
    P = layout.pinned()["types"]
    attr_types = sorted(n for n, d in P.items() if d["kind"] == "prim" and "bits" in d)
    for r in range(shard["rounds"]):
        codes = list(RC_CODES)
        rng.shuffle(codes)
        seq = []
        for c in codes + codes[::-1]:
            data = b"\x80\x01\x00\x00\x00\x0a" + c.to_bytes(4, "big")
            seq.append(cases.Case("Response", data, cc=0x144, origin="rc-sequence", sig=("rcseq", c)))
        words = [rng.randrange(256) for _ in range(6)] + [0x04, 0x40, 0x60]
        for v in words:
            order = list(attr_types)
            rng.shuffle(order)
            for tn in order:
                w = P[tn]["width"]
                seq.append(cases.Case(tn, v.to_bytes(w, "big"), origin="attr-sequence", sig=("attrseq", tn, v)))
        for case in seq:
            check(case, rec, modes=(True,))
            rec.count("sequence_streams")


def run_shard(shard, rec):
    if shard.get("kind") == "sequences":
        run_sequences(shard, rec)
        return
    rng = random.Random(f"{shard.get('seed', 0)}:C14:{shard['name']}")
    thorough = shard.get("tier") == "thorough"
    for base in _strict.base_cases(shard, rng, hostile=rec):
        check(base, rec)
        bref = base.ref()
        if bref.outcome.kind != "ok":
            continue
        lim = 8 if thorough else 3
        for fc in cases.size_faults(base, bref, ks=(1, 3), limit=lim, rng=rng):
            check(fc, rec, modes=(False,))
        for fc in cases.value_faults(base, bref, rng, limit=lim - 1):
            check(fc, rec, modes=(False,))
        cuts = list(cases.cut_faults(base))
        for fc in rng.sample(cuts, min(3 if not thorough else 10, len(cuts))):
            check(fc, rec, modes=(False,))
    rec.sample(dict(shard=shard["name"], rows=rec.counters.get("pretty_rows")))


def finish(m, tier):
    inc = []
    for k in ("pretty_rows", "warning_rows", "bit_rows", "buffer_rows", "event_lines", "sequence_streams", "printer_feed_comparisons", "rows_below_level_9"):
        if not m["counters"].get(k):
            inc.append(f"no {k}")
    return dict(inconclusive=inc)


def replay(r, rec):
    case = cases.Case.from_replay(r)
    check(case, rec, modes=((r.get("mode") != "warn"),), deep="[deep root]" in (r.get("origin") or ""))
