"""C16 - protocol integers carry their value, width, validity and name faithfully.

Oracle: plain ``int`` arithmetic plus the pinned snapshot (width, signedness, allowed set, names).
"""
import operator
import random

from .. import layout
from ..refmodel import in_intervals

PROPERTY = "C16"
LEVEL = "exploration"
RULE = (
    "for each of the 102 primitive types: all values of 8-bit types, all 65536 values of 16-bit types (thorough; "
    "boundaries + seeded sample in quick), for 32/64-bit types every allowed-interval end point +-2, the width limits "
    "and seeded random values, plus for every 32/64-bit type a run of 3000 (thorough 70000) distinct consecutive valid values followed by the early ones again; per value: int/==/hash/ordering/index, byte form, validity against the pinned set, "
    "text form (str and format) against the pinned names; operator pairs (13 binary operators, both operand orders, "
    "typed x int and typed x typed) over boundary values; distinct = distinct (type, value) and (type, operator, "
    "operand pair) cases"
)
ASSUMPTIONS = ["pinned widths, signedness, allowed sets and member names", "CPython int semantics as the arithmetic oracle"]

BINOPS = [
    ("add", operator.add), ("sub", operator.sub), ("mul", operator.mul), ("truediv", operator.truediv),
    ("floordiv", operator.floordiv), ("mod", operator.mod), ("divmod", divmod), ("pow", operator.pow),
    ("lshift", operator.lshift), ("rshift", operator.rshift), ("and", operator.and_), ("xor", operator.xor),
    ("or", operator.or_),
]
CMPOPS = [("lt", operator.lt), ("le", operator.le), ("gt", operator.gt), ("ge", operator.ge), ("eq", operator.eq), ("ne", operator.ne)]
PARTNERS = (0, 1, -1, 2, 3, 7, 64, 255, -256)


def plan(tier, seed):
    P = layout.pinned()
    names = sorted(n for n, d in P["types"].items() if d["kind"] == "prim")
    shards = []
    for n in names:
        d = P["types"][n]
        if tier == "thorough" and d["width"] == 2:
            for part in range(4):
                shards.append(dict(name=f"{n}#{part}", type=n, part=part, parts=4))
        else:
            shards.append(dict(name=n, type=n, part=0, parts=1))
    # families of types that share a base enumeration, checked in one process with the same values back to back in both
    # orders: state carried from one type to its siblings (memoised verdicts, shared caches) shows here
    fam = {}
    for n in names:
        bases = P["types"][n]["bases"]
        root = bases[-2] if len(bases) >= 2 else (bases[-1] if bases else n)
        fam.setdefault(root, []).append(n)
    for root, members in sorted(fam.items()):
        if len(members) >= 2:
            shards.append(dict(name=f"family-{root}", type=None, family=members, part=0, parts=1))
    return shards


def limits(d):
    bits = 8 * d["width"]
    if d["signed"]:
        return -(1 << (bits - 1)), 1 << (bits - 1)
    return 0, 1 << bits


def boundary_values(d):
    lo, hi = limits(d)
    pts = {lo, lo + 1, hi - 1, hi - 2, 0, 1}
    for a, b in d["valid"]:
        for k in (-2, -1, 0, 1, 2):
            pts.add(a + k)
            pts.add(b + k)
    for r in d["ranges"]:
        pts.update((r["start"], r["start"] + 1, r["end"] - 1, r["start"] + 15, r["start"] + 16, r["start"] + 17))
    for v in d["names"]:
        pts.add(int(v))
    return sorted(p for p in pts if lo <= p < hi)


def values_for(d, rng, tier, part, parts):
    lo, hi = limits(d)
    if d["width"] == 1:
        return list(range(lo, hi)), True
    if d["width"] == 2 and tier == "thorough":
        allv = range(lo, hi)
        n = len(allv)
        return list(allv[part * n // parts : (part + 1) * n // parts]), True
    vals = set(boundary_values(d))
    n = (1500 if d["width"] == 2 else 800) if tier == "quick" else 5000
    for _ in range(n):
        vals.add(rng.randrange(lo, hi))
    # and some valid values from inside each interval
    for a, b in d["valid"]:
        for _ in range(3):
            vals.add(rng.randrange(a, b))
    return sorted(vals), False


def expected_names(d, v):
    """Acceptable text-form endings for a valid value, or None when the value has no declared name."""
    ends = []
    for _cls, name in d["names"].get(str(v), []):
        ends.append("." + name)
    for r in d["ranges"]:
        if r["start"] <= v < r["end"]:
            ends.append(f".{r['basename']}{r['sep']}{v - r['start']:0{r['nibbles']}x}")
    return ends or None


def outcome(fn, *args):
    try:
        r = fn(*args)
    except Exception as e:  # the exception class is the observable
        return ("exc", type(e).__name__)
    return ("val", type(r).__name__, r)


def check_value(tn, T, d, v, rec, viol):
    try:
        _check_value(tn, T, d, v, rec, viol)
    except Exception as e:  # a clause that raises is a failing clause, not a harness problem
        viol("raises", f"{tn}({v}): {type(e).__name__}: {e}", v)


def _check_value(tn, T, d, v, rec, viol):
    rec.case((tn, v))
    x = T(v)
    w, s = d["width"], d["signed"]
    checks = []
    checks.append(("int", int(x) == v and type(int(x)) is int))
    checks.append(("index", operator.index(x) == v))
    checks.append(("eq", (x == v) is True and (v == x) is True and (x != v) is False and (x == v + 1) is False and (x == T(v)) is True))
    checks.append(("hash", hash(x) == hash(v)))
    checks.append(("order", (x < v + 1) and (v - 1 < x) and not (x < v) and (x <= v) and (x >= v) and not (x > v) and (v + 1 > x) and (x > v - 1)))
    exp_bytes = v.to_bytes(w, "big", signed=s)
    got = outcome(x.to_bytes)
    checks.append(("to_bytes", got == ("val", "bytes", exp_bytes)))
    valid = in_intervals(v, d["valid"])
    checks.append(("is_valid", x.is_valid() is valid or x.is_valid() == valid and isinstance(x.is_valid(), bool)))
    for name, ok in checks:
        if not ok:
            viol(name, f"{tn}({v}): {name} clause fails (int={int(x)!r}, bytes={got!r}, is_valid={x.is_valid()!r}, expected valid={valid})", v)
    if valid:
        ends = expected_names(d, v)
        if ends:
            rec.count("named_values")
            for form, text in (("str", str(x)), ("format", format(x, ""))):
                if not any(text.endswith(e) for e in ends):
                    viol(f"text-{form}", f"{tn}({v:#x}): {form}() = {text!r}, expected a text ending in one of {ends}", v)
        else:
            rec.count("unnamed_valid_values")


def check_ops(tn, T, d, vals, rng, rec, viol):
    lo, hi = limits(d)
    try:
        typed_partners = [T(p) for p in vals[:3]]
    except Exception as e:
        viol("raises", f"{tn}: constructing {vals[:3]} raised {type(e).__name__}: {e}", vals[0])
        return
    for v in vals:
        try:
            x = T(v)
        except Exception as e:
            viol("raises", f"{tn}({v}): {type(e).__name__}: {e}", v)
            continue
        for opname, op in BINOPS:
            for p in PARTNERS:
                # keep results small: bounded shifts and powers
                if opname in ("lshift", "rshift", "pow") and not (0 <= p <= 70 if opname != "pow" else -1 <= p <= 3):
                    fw = False
                else:
                    fw = True
                if fw:
                    rec.case((tn, opname, v, p, "r"))
                    a, b = outcome(op, x, p), outcome(op, v, p)
                    if a != b:
                        viol(f"op-{opname}", f"{tn}({v}) {opname} {p}: {a} != {b}", v)
                bw = True
                if opname in ("lshift", "rshift") and not 0 <= v <= 70:
                    bw = False
                if opname == "pow" and not -2 <= v <= 8:
                    bw = False
                if bw:
                    rec.case((tn, opname, p, v, "l"))
                    a, b = outcome(op, p, x), outcome(op, p, v)
                    if a != b:
                        viol(f"rop-{opname}", f"{p} {opname} {tn}({v}): {a} != {b}", v)
            for y in typed_partners:
                yv = int(y)
                if opname in ("lshift", "rshift") and not 0 <= yv <= 70:
                    continue
                if opname == "pow" and not (-1 <= yv <= 3 and abs(v) < (1 << 40)):
                    continue
                rec.case((tn, opname, v, yv, "t"))
                a, b = outcome(op, x, y), outcome(op, v, yv)
                if a != b:
                    viol(f"top-{opname}", f"{tn}({v}) {opname} {tn}({yv}): {a} != {b}", v)
        for opname, op in CMPOPS:
            for p in (v - 1, v, v + 1, 0):
                try:
                    typed_p = T(p) if lo <= p < hi else p
                except Exception:
                    typed_p = p
                for args, exp in (((x, p), op(v, p)), ((p, x), op(p, v)), ((x, typed_p), op(v, p))):
                    rec.case((tn, opname, v, p))
                    if outcome(op, *args) != ("val", "bool", exp):
                        viol(f"cmp-{opname}", f"{opname}({args[0]!r}, {args[1]!r}) = {outcome(op, *args)} expected {exp}", v)


def long_run(tn, T, d, n, rec, viol):
    """n distinct valid values constructed one after the other (consecutive values from the start of every allowed
    interval), then the early ones again: whatever the type remembers about the values it has seen (bounded caches,
    memo tables) has been filled, evicted and is hit again."""
    iv = [(a, b) for a, b in d["valid"] if b > a]
    if not iv:
        return
    per = n // len(iv) + 1
    seq = []
    for a, b in iv:
        seq.extend(range(a, min(b, a + per)))
    seq = seq[:n]
    if len(seq) < 300:
        return  # small sets are enumerated by the value shards anyway
    w, s = d["width"], d["signed"]
    revisit = seq[:48] + seq[len(seq) // 2 : len(seq) // 2 + 16] + seq[-16:]
    for phase, values in (("first", seq), ("revisit", revisit), ("revisit2", revisit[::-1])):
        for v in values:
            x = T(v)
            got_int, got_bytes = int(x), x.to_bytes()
            if got_int != v or got_bytes != v.to_bytes(w, "big", signed=s) or hash(x) != hash(v) or x.is_valid() is not True:
                viol("long-run", f"{tn}({v:#x}) constructed in phase '{phase}' of a run of {len(seq)} distinct valid values: int={got_int:#x}, bytes={got_bytes.hex()}, "
                                 f"is_valid={x.is_valid()!r}", v)
                return
            ends = expected_names(d, v)
            if ends and not any(str(x).endswith(e) for e in ends):
                viol("long-run", f"{tn}({v:#x}) constructed in phase '{phase}' of a run of {len(seq)} distinct valid values: str() = {str(x)!r}, expected an ending in {ends}", v)
                return
    rec.count("long_runs")
    rec.count("long_run_values", len(seq))


def run_family(shard, rec):
    from ..trace import type_by_name

    P = layout.pinned()["types"]
    rng = random.Random(f"{shard.get('seed', 0)}:C16:{shard['name']}")
    members = [(tn, type_by_name(tn), P[tn]) for tn in shard["family"]]
    vals = set()
    for tn, T, d in members:
        bv = boundary_values(d)
        vals.update(bv if len(bv) <= 60 else rng.sample(bv, 60))
    for v in sorted(vals):
        order = list(members)
        rng.shuffle(order)
        for tn, T, d in order + order[::-1]:
            lo, hi = limits(d)
            if not lo <= v < hi:
                continue

            def viol(rule, msg, value, tn=tn):
                rec.violation(rule, f"family:{rule}:{tn}", msg + f" (checked right after its sibling types {[m[0] for m in order][:4]}...)", dict(type=tn, value=value, family=shard["family"]))

            check_value(tn, T, d, v, rec, viol)
    rec.count("family_shards")


def run_shard(shard, rec):
    from ..trace import type_by_name

    if shard["type"] is None:
        run_family(shard, rec)
        return
    tn = shard["type"]
    d = layout.pinned()["types"][tn]
    T = type_by_name(tn)
    rng = random.Random(f"{shard.get('seed', 0)}:C16:{shard['name']}")

    def viol(rule, msg, v):
        rec.violation(rule, f"{rule}:{tn}" if rule.startswith("text") or rule in ("is_valid", "to_bytes") else rule, msg, dict(type=tn, value=v))

    live_ok = T._int_size == d["width"] and bool(T._signed) == d["signed"]
    if not live_ok:
        viol("width", f"{tn}: live width/signedness ({T._int_size}, {T._signed}) differ from pinned ({d['width']}, {d['signed']})", 0)
    vals, exhaustive = values_for(d, rng, shard.get("tier", "quick"), shard["part"], shard["parts"])
    # this worker is a fresh interpreter: which value a type is asked about FIRST is a history of its own (an ascending
    # sweep always starts at the lower limit) - the first value rotates with the seed and the type
    lo, hi = limits(d)
    firsts = [v for v in (-1, 0, 1, hi - 1, lo, 2) if lo <= v < hi]
    first = firsts[(int(shard.get("seed", 0)) + sum(map(ord, tn))) % len(firsts)]
    check_value(tn, T, d, first, rec, viol)
    rec.count("first_value_%s" % ("minus_one" if first == -1 else "zero" if first == 0 else "other"))
    for v in vals:
        check_value(tn, T, d, v, rec, viol)
    if shard["part"] == 0:
        bv = boundary_values(d)
        if len(bv) > 24:
            bv = sorted(set(bv[:8] + bv[-8:] + rng.sample(bv, 8)))
        check_ops(tn, T, d, bv, rng, rec, viol)
        rec.count("types")
        if d["width"] >= 4:
            n = 3000 if shard.get("tier", "quick") == "quick" else 70000

            def lviol(rule, msg, v):
                rec.violation(rule, f"{rule}:{tn}", msg, dict(type=tn, value=v, long_run=n))

            long_run(tn, T, d, n, rec, lviol)
    rec.count("values", len(vals))
    rec.count("exhaustive_value_shards" if exhaustive else "sampled_value_shards")
    if tn in ("TPM_HANDLE", "TPM_CLOCK_ADJUST", "TPMI_ALG_HASH"):
        v = vals[len(vals) // 2]
        rec.sample(dict(type=tn, value=v, text=format(T(v), ""), bytes=T(v).to_bytes().hex(), valid=T(v).is_valid()))


def finish(m, tier):
    inc = []
    if m["counters"].get("types", 0) != 102:
        inc.append(f"{m['counters'].get('types', 0)} primitive types checked, expected 102")
    if not m["counters"].get("family_shards"):
        inc.append("no family shard ran")
    if not m["counters"].get("long_runs"):
        inc.append("no long run of distinct valid values was executed")
    if not m["counters"].get("named_values"):
        inc.append("no named value was checked")
    return dict(inconclusive=inc)


def replay(case, rec):
    from ..trace import type_by_name

    if case.get("family"):
        run_family(dict(name="replay", family=case["family"]), rec)
        return
    tn = case["type"]
    d = layout.pinned()["types"][tn]
    T = type_by_name(tn)

    def viol(rule, msg, v):
        rec.violation(rule, rule, msg, dict(type=tn, value=v))

    if case.get("long_run"):
        long_run(tn, T, d, case["long_run"], rec, viol)
        return
    check_value(tn, T, d, case["value"], rec, viol)
    check_ops(tn, T, d, [case["value"]], random.Random(0), rec, viol)
