"""C15 - hex, swtpm-log, pcapng and auto inputs decode like the bytes they carry.

Differential against the binary decode of the carried bytes for generated streams rendered in each container
with randomized layout noise, plus independent reference recognisers for the two text scanners run over all
strings up to a length bound over small alphabets.
"""
import io
import itertools
import random
import re

from .. import cases
from .. import trace as TR

PROPERTY = "C15"
LEVEL = "exploration"
RULE = (
    "generated streams rendered as hex text (random case, whitespace runs of the six ASCII blanks between and inside pairs, "
    "leading/trailing blanks), as swtpm logs (free text, interleaved control sections, 1-32 pairs per line, LF/CRLF) and as "
    "pcapng captures (link types IPV4 / RAW / EN10MB, runt payloads, empty ACK packets, 4-byte mssim trailers), each decoded "
    "by its front-end and by Auto and compared with the binary decode of the carried bytes; all strings up to length 5 "
    "(thorough 6) over {0 a F blank LF g + - x _} for the hex scanner and all token strings up to 4 (thorough 5) tokens over 14 "
    "tokens for the swtpm scanner compared with reference recognisers; distinct = distinct (front-end, stream signature, "
    "layout) and (scanner, string) cases"
)
ASSUMPTIONS = [
    "dpkt writes and reads the generated captures (a dpkt bug common to writer and reader is invisible)",
    "Auto chooses among binary / hex / pcapng (its own format list); an swtpm log must be selected explicitly",
    "swtpm-log text outside the documented layout need only yield bytes or ValueError",
]

WS = b" \t\n\r\x0b\x0c"
HEX_ALPHABET = (b"0", b"a", b"F", b" ", b"\n", b"g", b"+", b"-", b"x", b"_")
SW_TOKENS = (b"SWTPM_IO", b"_Read: length 1", b"\n", b"8", b"0", b"A", b"a", b" ", b"Ctrl", b" Cmd", b"S", b"C", b"t", b"x")


def plan(tier, seed):
    q = tier == "quick"
    shards = []
    n = 5 if q else 12
    for i in range(n):
        shards.append(dict(name=f"render{i}", kind="render", n=6 if q else 60))
    hl, parts = (5, 3) if q else (6, 8)
    for p in range(parts):
        shards.append(dict(name=f"hexstrings{p}", kind="hexstrings", L=hl, part=p, parts=parts))
    sl, parts = (4, 4) if q else (5, 12)
    for p in range(parts):
        shards.append(dict(name=f"swstrings{p}", kind="swstrings", L=sl, part=p, parts=parts))
    return shards


# ---------------------------------------------------------------------------------------------------
# renderers
# ---------------------------------------------------------------------------------------------------


def ws_run(rng, lo=0, hi=3):
    return bytes(rng.choice(WS) for _ in range(rng.randint(lo, hi)))


def hex_render(data, rng, lead=True, split_first=True):
    """Returns (text, pair_end[]) - pair_end[i] = index just after the 2nd nibble of byte i."""
    out = bytearray()
    ends = []
    if lead and rng.random() < 0.5:
        out += ws_run(rng, 1, 3)
    for i, b in enumerate(data):
        h = f"{b:02x}"
        chars = [c.upper() if rng.random() < 0.5 else c for c in h]
        out += chars[0].encode()
        if rng.random() < 0.1 and (split_first or i > 0):
            out += ws_run(rng, 1, 2)
        out += chars[1].encode()
        ends.append(len(out))
        r = rng.random()
        if r < 0.6:
            out += b" "
        elif r < 0.75:
            out += ws_run(rng, 1, 3)
        elif r < 0.8:
            out += b"\r\n"
    if rng.random() < 0.5:
        out += ws_run(rng, 1, 3)
    return bytes(out), ends


FREE = (b"Starting vTPM manufacturing as tss:tss\n", b"Successfully created RSA 2048 EK with handle 0x81010001.\n",
        b"  Invoking /usr/bin/swtpm_localca --type ek\n", b"SWTPM_I o\n", b"SWTPM is up\n", b"", b"\n", b"Ctrl Cmd: length 4\n 00 00 00 10\nCtrl Rsp: length 4\n 00 00 00 00\n")
CTRL = (b" Ctrl Cmd: length 4\n 00 00 00 01\n", b" Ctrl Rsp: length 8\n 00 00 00 00 00 01 FF FF\n", b"Ctrl Cmd: length 8\n 00 00 00 02 00 00 00 00\n Ctrl Rsp: length 4\n 00 00 00 00\n")


def swtpm_render(messages, rng):
    """Returns (text, pair_end[]) for the concatenated payload bytes of the messages."""
    out = bytearray()
    ends = []
    for _ in range(rng.randint(0, 3)):
        out += rng.choice(FREE)
    for k, m in enumerate(messages):
        if rng.random() < 0.3:
            out += rng.choice(CTRL)
        out += rng.choice((b" ", b"")) + b"SWTPM_IO_" + (b"Read" if k % 2 == 0 else b"Write") + f": length {len(m)}".encode() + rng.choice((b"\n", b"\r\n"))
        per_line = rng.choice((16, 16, 1, 2, 7, 32))
        for i, b in enumerate(m):
            if i % per_line == 0:
                out += rng.choice((b" ", b" ", b"", b"  "))
            out += f"{b:02X}".encode()
            ends.append(len(out))
            if (i + 1) % per_line == 0 or i == len(m) - 1:
                out += rng.choice((b"\n", b"\n", b"\r\n", b" \n"))
            else:
                out += rng.choice((b" ", b" ", b" ", b"  "))
    if rng.random() < 0.3:
        out += rng.choice(CTRL)
    return bytes(out), ends


def pcap_render(messages, rng, link=None):
    """Returns (pcapng bytes, carried bytes)."""
    import dpkt

    link = link or rng.choice(("ipv4", "raw", "eth"))
    linktype = {"ipv4": 228, "raw": 101, "eth": 1}[link]
    f = io.BytesIO()
    w = dpkt.pcapng.Writer(f, linktype=linktype)
    carried = bytearray()
    ts = 1650741887.0
    # the order of a capture is the order of its packets in the file, whatever their time stamps say: increasing, all
    # equal, coarse (ties), decreasing
    clock = rng.choice(("increasing", "constant", "coarse", "decreasing"))
    stamps = {"n": 0}

    def stamp():
        stamps["n"] += 1
        n = stamps["n"]
        return {"increasing": ts + 0.001 * n, "constant": ts, "coarse": ts + (n // 3), "decreasing": ts - 0.5 * n}[clock]

    def packet(payload):
        tcp = dpkt.tcp.TCP(sport=2321, dport=50000, seq=rng.randrange(1 << 32), ack=1, flags=dpkt.tcp.TH_ACK | (dpkt.tcp.TH_PUSH if payload else 0), data=payload)
        ip = dpkt.ip.IP(src=b"\x7f\x00\x00\x01", dst=b"\x7f\x00\x00\x01", p=dpkt.ip.IP_PROTO_TCP, ttl=255, data=tcp)
        ip.len = 20 + len(bytes(tcp))
        if link == "eth":
            return bytes(dpkt.ethernet.Ethernet(dst=b"\0" * 6, src=b"\0" * 6, type=dpkt.ethernet.ETH_TYPE_IP, data=ip))
        return bytes(ip)

    for k, m in enumerate(messages):
        r = rng.random()
        if r < 0.2:
            w.writepkt(packet(b""), stamp())  # empty ACK
        if r > 0.85:
            runt = bytes(rng.randrange(256) for _ in range(rng.randint(1, 9)))  # e.g. mssim platform command
            w.writepkt(packet(runt), stamp())
        payload = m
        if k % 2 == 1 and rng.random() < 0.4:
            payload = m + b"\x00\x00\x00\x00"  # mssim trailer on responses
        w.writepkt(packet(payload), stamp())
        carried += m
    return f.getvalue(), bytes(carried)


# ---------------------------------------------------------------------------------------------------
# reference recognisers
# ---------------------------------------------------------------------------------------------------

HEXPAIR_RE = re.compile(rb"(?:[ \t\n\r\x0b\x0c]*[0-9a-fA-F][ \t\n\r\x0b\x0c]*[0-9a-fA-F])*[ \t\n\r\x0b\x0c]*\Z")


def ref_hex(text):
    """bytes, or None when the text is not a sequence of hex pairs (ValueError expected)."""
    if not HEXPAIR_RE.match(text):
        return None
    digits = bytes(c for c in text if c not in WS)
    return bytes.fromhex(digits.decode())


BODY_RE = re.compile(rb"(?:[ \r\n]|[0-9A-F]{2})*")


def ref_swtpm(text):
    """(status, bytes): status 'ok' (in grammar), 'error' (in grammar, ValueError expected), 'outside'."""
    marker = b"SWTPM_IO"
    out = bytearray()
    i = text.find(marker)
    # free text must not end inside a marker prefix / contain a partial marker directly before the marker
    head = text if i == -1 else text[:i]
    if i == -1:
        for k in range(1, len(marker)):
            if text.endswith(marker[:k]):
                return "outside", None
        return "ok", b""
    if head and head[-1:] in b"SWTPM_I":
        return "outside", None
    while True:
        nl = text.find(b"\n", i + len(marker))
        if nl == -1:
            return "error", None  # marker without payload
        j = nl + 1
        m = BODY_RE.match(text, j)
        end = m.end()
        body = bytes(c for c in text[j:end] if c not in b" \r\n")
        out += bytes.fromhex(body.decode())
        rest = text[end:]
        if not rest:
            return "ok", bytes(out)
        if rest.startswith(marker):
            i = end
            continue
        if rest.startswith(b"Ct"):
            nxt = text.find(marker, end)
            if nxt == -1:
                tail = text[end:]
                for k in range(1, len(marker)):
                    if tail.endswith(marker[:k]):
                        return "outside", None
                return "ok", bytes(out)
            if text[nxt - 1 : nxt] in b"SWTPM_I" and nxt - 1 >= end:
                return "outside", None
            i = nxt
            continue
        return "outside", None


# ---------------------------------------------------------------------------------------------------
# checks
# ---------------------------------------------------------------------------------------------------


def sig_of(t):
    return [(e.kind, e.path, e.tname, e.value, e.vclass) if e.kind == "M" else ("W", e.err["cls"], e.err["str"]) for e in t.events], t.outcome[0], (
        {k: v for k, v in t.outcome[1].items()} if t.outcome[0] == "constraint" else t.outcome[1:])


def front(name):
    from tpmstream.io.auto import Auto
    from tpmstream.io.hex import Hex
    from tpmstream.io.pcapng import Pcapng
    from tpmstream.io.swtpm_log import SWTPMLog

    return dict(hex=Hex, swtpm=SWTPMLog, pcapng=Pcapng, auto=Auto)[name]


def compare(rec, fe, container, carried, label, replay, strict=True, known_mech=None):
    base = TR.run("CommandResponseStream", carried, strict=strict)
    t = TR.run("CommandResponseStream", carried, strict=strict, front=front(fe), container=container)
    rec.case((fe, label, len(carried), len(container)), nontrivial=True)
    rec.count(f"differential_{fe}")
    if sig_of(base) != sig_of(t):
        mech = known_mech or f"{fe}:{t.okind()}-vs-{base.okind()}"
        rec.violation("differential", mech, f"{fe} front-end on {label} ({len(container)} container bytes, {len(carried)} carried): outcome {t.outcome[:2]} with {len(t.events)} events, binary decode of the carried bytes: {base.outcome[:2]} with {len(base.events)} events\ncontainer starts {container[:60]!r}", replay)
    return t


def render_checks(stream, msgs, rng, rec):
    mb = [m.d for m in msgs]
    carried = b"".join(mb)
    rp = lambda fe, cont: dict(kind="container", fe=fe, container=cont.hex(), carried=carried.hex())
    # hex
    text, _ = hex_render(carried, rng)
    compare(rec, "hex", text, carried, "noisy-hex", rp("hex", text))
    clean, _ = hex_render(carried, rng, lead=False, split_first=False)
    compare(rec, "auto", clean, carried, "hex-via-auto", rp("auto", clean))
    lead = rng.choice((b" ", b"\n", b"\t ")) + clean if rng.random() < 0.5 else clean[:1] + b" " + clean[1:]
    compare(rec, "auto", lead, carried, "hex-leading-blank-via-auto", rp("auto", lead), known_mech="auto:hex-text-not-starting-with-a-pair")
    # a malformed stream through hex in warn mode (front-ends must hand the flags through)
    if carried:
        bad = bytearray(carried)
        bad[rng.randrange(len(bad))] ^= 0x41
        btext, _ = hex_render(bytes(bad), rng)
        compare(rec, "hex", btext, bytes(bad), "malformed-hex-warn", rp("hex", btext), strict=False)
    # swtpm
    stext, _ = swtpm_render(mb, rng)
    compare(rec, "swtpm", stext, carried, "swtpm-log", rp("swtpm", stext))
    # pcapng
    pc, pcarried = pcap_render(mb, rng)
    compare(rec, "pcapng", pc, pcarried, "pcapng", dict(kind="container", fe="pcapng", container=pc.hex(), carried=pcarried.hex()))
    compare(rec, "auto", pc, pcarried, "pcapng-via-auto", dict(kind="container", fe="auto", container=pc.hex(), carried=pcarried.hex()))
    # binary via auto
    compare(rec, "auto", carried, carried, "binary-via-auto", rp("auto", carried))
    # text that is not hex pairs must be rejected with ValueError, whatever surrounds it
    if carried:
        junk = bytearray(text)
        pos = rng.randrange(len(junk))
        junk[pos : pos + 1] = rng.choice((b"g", b"+", b"-", b"x", b"_", b"G", b"."))
        expect_reject(rec, "hex", bytes(junk))


def expect_reject(rec, fe, text):
    ref = ref_hex(text)
    t = TR.run("CommandResponseStream", b"", strict=False, front=front(fe), container=text)
    rec.case((fe, "junk", len(text)), nontrivial=True)
    rec.count("junk_texts")
    if ref is None:
        if not (t.outcome[0] == "internal" and t.outcome[1].startswith("ValueError@")):
            signs = {c for c in text if c not in WS and c not in b"0123456789abcdefABCDEF"} <= set(b"+-")
            rec.violation("reject", f"{fe}:accepts:{'sign' if signs else 'non-hex'}", f"text that is not a sequence of hex pairs was not rejected with ValueError: outcome {t.outcome[:2]}, text {text[:80]!r}", dict(kind="junk", fe=fe, container=text.hex()))


def scan(fn, text):
    try:
        return ("bytes", bytes(fn(text)))
    except ValueError as e:
        return ("ValueError", str(e))
    except Exception as e:
        return ("other", f"{type(e).__name__}: {e}")


def hex_strings(shard, rec):
    from tpmstream.io.hex.marshal import parse_hex_string

    i = 0
    for n in range(shard["L"] + 1):
        for tup in itertools.product(HEX_ALPHABET, repeat=n):
            i += 1
            if i % shard["parts"] != shard["part"]:
                continue
            text = b"".join(tup)
            ref = ref_hex(text)
            got = scan(parse_hex_string, text)
            rec.case(("hexstr", text), nontrivial=True)
            rec.count("hex_in_language" if ref is not None else "hex_outside_language")
            if ref is None:
                if got[0] != "ValueError":
                    bad = sorted(set(chr(c) for c in text if chr(c) in "+-x_g"))
                    rec.violation("hex-scanner", "accepts:" + ("sign" if set(bad) <= set("+-") else "".join(bad)), f"hex scanner on {text!r}: {got}, reference: not a sequence of hex pairs", dict(kind="hexstr", text=text.hex()))
            elif got != ("bytes", ref):
                rec.violation("hex-scanner", "wrong-bytes", f"hex scanner on {text!r}: {got}, reference {ref.hex()}", dict(kind="hexstr", text=text.hex()))


def sw_strings(shard, rec):
    from tpmstream.io.swtpm_log.marshal import parse_hex_string

    i = 0
    for n in range(shard["L"] + 1):
        for tup in itertools.product(SW_TOKENS, repeat=n):
            i += 1
            if i % shard["parts"] != shard["part"]:
                continue
            text = b"".join(tup)
            status, ref = ref_swtpm(text)
            got = scan(parse_hex_string, text)
            rec.case(("swstr", text), nontrivial=status != "outside")
            rec.count(f"swtpm_{status}")
            if got[0] == "other":
                rec.violation("swtpm-scanner", "exception-class", f"swtpm scanner on {text!r}: {got}", dict(kind="swstr", text=text.hex()))
            elif status == "ok" and got != ("bytes", ref):
                rec.violation("swtpm-scanner", "wrong-bytes" if got[0] == "bytes" else "rejects-documented-layout", f"swtpm scanner on {text!r}: {got}, reference {ref.hex()}", dict(kind="swstr", text=text.hex()))
            elif status == "error" and got[0] != "ValueError":
                rec.violation("swtpm-scanner", "accepts-marker-without-payload", f"swtpm scanner on {text!r}: {got}, reference: ValueError", dict(kind="swstr", text=text.hex()))


# ---------------------------------------------------------------------------------------------------
# laziness of the text front-ends and of the file concatenation (used by C10)
# ---------------------------------------------------------------------------------------------------


class LoggedFile:
    def __init__(self, data, log, k):
        self.data, self.log, self.k, self.mode, self.done = data, log, k, "rb", False

    def read(self):
        self.log.append(self.k)
        if self.done:
            return b""
        self.done = True
        return self.data


def lazy_checks(stream, msgs, rng, rec):
    from tpmstream.io import bytes_from_files
    from tpmstream.io.binary import Binary
    from tpmstream.io.hex import Hex
    from tpmstream.io.swtpm_log import SWTPMLog
    from tpmstream.spec.commands import CommandResponseStream

    mb = [m.d for m in msgs]
    carried = b"".join(mb)
    for fe_name, fe, (text, ends) in (("hex", Hex, hex_render(carried, rng)), ("swtpm", SWTPMLog, swtpm_render(mb, rng))):
        src = TR.CountingSource(text)
        consumed = 0
        rec.case(("lazy", fe_name, stream.sig), nontrivial=True)
        try:
            for ev in fe.marshal(tpm_type=CommandResponseStream, buffer=src, abort_on_error=True):
                e = TR.record_event(ev)
                if e.kind == "M" and isinstance(e.chunk, bytes):
                    consumed += len(e.chunk) if isinstance(e.chunk, bytes) else 0 if isinstance(e.chunk, bytes) else 0
                bound = ends[consumed] if consumed < len(ends) else len(text)
                rec.count(f"lazy_{fe_name}_events")
                if src.n > bound:
                    rec.violation("lazy-front-end", fe_name, f"{fe_name}: at {e!r} {src.n} characters were pulled, the pair supplying the look-ahead byte (#{consumed + 1}) ends at {bound}",
                                  dict(lazy=fe_name, t="CommandResponseStream", d=carried.hex(), container=text.hex()))
                    break
        except Exception as ex:
            rec.count(f"lazy_{fe_name}_decode_error")
        # the container cut right behind the pair of carried byte k: the same events and the same end as the carried
        # prefix decoded directly, in both modes (every field complete in the prefix is delivered, then 'depleted')
        ks = sorted({rng.randrange(len(carried)) for _ in range(6)} | {0, len(carried) - 2}) if len(carried) > 2 else []
        for k in ks:
            if k < 0 or k >= len(ends):
                continue
            cut_text = text[: ends[k]]
            for strict in (True, False):
                want = TR.run("CommandResponseStream", carried[: k + 1], strict=strict)
                got = TR.run("CommandResponseStream", carried[: k + 1], strict=strict, front=fe, container=cut_text)
                rec.count(f"lazy_{fe_name}_cut_runs")
                a = [(e.kind, e.path, e.tname, e.value) if e.kind == "M" else ("W", e.err["cls"]) for e in want.events]
                b = [(e.kind, e.path, e.tname, e.value) if e.kind == "M" else ("W", e.err["cls"]) for e in got.events]
                if a != b or want.outcome[0] != got.outcome[0]:
                    rec.violation("lazy-front-end", f"{fe_name}:cut", f"{fe_name} text cut behind carried byte {k} ({'strict' if strict else 'warn'}): {len(b)} events / {got.outcome[0]} "
                                                                      f"{got.outcome[1:2] if got.outcome[0] == 'internal' else ''}, the carried prefix decoded directly gives {len(a)} events / {want.outcome[0]}",
                                  dict(lazy=fe_name, t="CommandResponseStream", d=carried.hex(), container=text.hex()))
                    break
    # a real buffered file object (what the command line hands over)
    import os
    import tempfile

    fd, tmpname = tempfile.mkstemp(prefix="vt_c10_")
    try:
        with os.fdopen(fd, "wb") as fh:
            fh.write(carried)
        whole = [TR.record_event(ev) for ev in Binary.marshal(tpm_type=CommandResponseStream, buffer=carried, abort_on_error=True)]
        with open(tmpname, "rb") as fh:
            got = [TR.record_event(ev) for ev in Binary.marshal(tpm_type=CommandResponseStream, buffer=bytes_from_files(fh), abort_on_error=True)]
        rec.case(("lazy", "bufferedreader", stream.sig), nontrivial=True)
        rec.count("bufferedreader_runs")
        if [(e.kind, e.path, e.tname, e.value) for e in whole] != [(e.kind, e.path, e.tname, e.value) for e in got]:
            rec.violation("source-kind", "BufferedReader", f"decoding {len(carried)} bytes through bytes_from_files(open(..., 'rb')) gives {len(got)} events, from bytes {len(whole)}",
                          dict(lazy="files", t="CommandResponseStream", d=carried.hex()))
    except Exception as ex:
        rec.count("bufferedreader_decode_error")
    finally:
        os.unlink(tmpname)
    # several files
    k = rng.randint(2, 4)
    # cut points may coincide or sit at the ends: some of the files are empty (first, middle or last)
    cuts = sorted(rng.choice((0, len(carried), rng.randrange(len(carried) + 1), rng.randrange(len(carried) + 1))) for _ in range(k - 1))
    parts = [carried[a:b] for a, b in zip([0] + cuts, cuts + [len(carried)])]
    starts = [0] + cuts
    rec.count("multi_file_runs")
    if any(not p for p in parts[:-1]):
        rec.count("multi_file_runs_with_empty_inner_file")
    log = []
    files = [LoggedFile(p, log, i) for i, p in enumerate(parts)]
    consumed = 0
    rec.case(("lazy", "files", stream.sig), nontrivial=True)
    n_events = 0
    try:
        for ev in Binary.marshal(tpm_type=CommandResponseStream, buffer=bytes_from_files(files), abort_on_error=True):
            e = TR.record_event(ev)
            n_events += 1
            if e.kind == "M" and isinstance(e.chunk, bytes):
                consumed += len(e.chunk) if isinstance(e.chunk, bytes) else 0
            rec.count("lazy_files_events")
            for fk in set(log):
                if consumed < starts[fk]:
                    rec.violation("lazy-front-end", "files", f"file #{fk} (starts at byte {starts[fk]}) was read while only {consumed} bytes of fields were emitted",
                                  dict(lazy="files", t="CommandResponseStream", d=carried.hex()))
                    return
    except Exception:
        rec.count("lazy_files_decode_error")
        n_events = -1
    try:
        whole_n = len(whole)
    except NameError:
        whole_n = None
    if whole_n is not None and n_events != whole_n:
        rec.violation("source-kind", "several-files", f"{len(carried)} bytes supplied as {len(parts)} files of sizes {[len(p) for p in parts]} decode to {n_events} events, supplied as bytes to {whole_n}",
                      dict(lazy="files", t="CommandResponseStream", d=carried.hex()))


def replay_lazy(r, rec):
    rng = random.Random(0)
    c = cases.Case("CommandResponseStream", bytes.fromhex(r["d"]), origin="replay", sig=("replay",))
    ref = c.ref()
    msgs = [cases.Case("x", c.d[m.start : m.end]) for m in ref.messages if m.end]
    lazy_checks(c, msgs, rng, rec)


def run_shard(shard, rec):
    rng = random.Random(f"{shard.get('seed', 0)}:C15:{shard['name']}")
    k = shard["kind"]
    if k == "render":
        for s, msgs in cases.stream_cases(rng, shard["n"], max_pairs=4):
            render_checks(s, msgs, rng, rec)
        rec.sample(dict(shard=shard["name"], hex=hex_render(b"\x80\x01\x00\x00\x00\x0a", rng)[0].decode("latin1"), swtpm=swtpm_render([b"\x80\x01\x00\x00"], rng)[0].decode("latin1")))
    elif k == "hexstrings":
        hex_strings(shard, rec)
    else:
        sw_strings(shard, rec)


def finish(m, tier):
    inc = []
    for k in ("differential_hex", "differential_swtpm", "differential_pcapng", "differential_auto", "junk_texts", "hex_in_language", "hex_outside_language", "swtpm_ok", "swtpm_error"):
        if not m["counters"].get(k):
            inc.append(f"no {k}")
    return dict(inconclusive=inc, coverage=dict(hex_strings_exhaustive_to_length=5 if tier == "quick" else 6, swtpm_token_strings_exhaustive_to=4 if tier == "quick" else 5))


def replay(r, rec):
    k = r.get("kind")
    if k == "container":
        compare(rec, r["fe"], bytes.fromhex(r["container"]), bytes.fromhex(r["carried"]), "replay", r)
    elif k == "junk":
        expect_reject(rec, r["fe"], bytes.fromhex(r["container"]))
    elif k == "hexstr":
        from tpmstream.io.hex.marshal import parse_hex_string

        text = bytes.fromhex(r["text"])
        ref, got = ref_hex(text), scan(parse_hex_string, text)
        if (ref is None and got[0] != "ValueError") or (ref is not None and got != ("bytes", ref)):
            rec.violation("hex-scanner", "replay", f"{text!r}: {got} vs reference {ref!r}", r)
    elif k == "swstr":
        from tpmstream.io.swtpm_log.marshal import parse_hex_string

        text = bytes.fromhex(r["text"])
        status, ref = ref_swtpm(text)
        got = scan(parse_hex_string, text)
        if got[0] == "other" or (status == "ok" and got != ("bytes", ref)) or (status == "error" and got[0] != "ValueError"):
            rec.violation("swtpm-scanner", "replay", f"{text!r}: {got} vs reference {status} {ref!r}", r)
