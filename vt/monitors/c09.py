"""C09 - a command/response stream decodes as its messages decoded one by one.

Differential on schedules: the decoder on the whole stream vs the decoder on each message alone (message
boundaries and the command->response pairing are taken from the *reference*), plus the events->objects
pairing of ``events_to_objs``.
"""
import random

from .. import cases, cmp, corpus, probes
from .. import refmodel as R
from .. import trace as TR

PROPERTY = "C09"
LEVEL = "exploration"
RULE = (
    "generated streams of 1..n command/response pairs over all command codes with sessions, parameter encryption, failed "
    "responses, the same code back to back with different configurations, streams ending after a command, one stream of 60 (thorough 3 x 400) pairs; per-file corpus "
    "streams; stream events must equal the concatenation of the individual decodes (response decoded with the preceding "
    "command's code and encryption request), every individual decode must equal the reference interpreter's, and events_to_objs (fed with a list, an iterator, the live stream decoder) must yield one equal object per message in order; warn mode: the same streams with some messages (the last one in 60 %) declared longer than their structure and padded accordingly must decode to the concatenation of the individual warn-mode decodes; distinct = "
    "distinct (sequence of (code, sessions, decrypt, encrypt, failure)) streams"
)
ASSUMPTIONS = ["message boundaries and pairing come from the reference interpreter, not from the decoder under test"]
ANCHORS = probes.STREAM


def plan(tier, seed):
    q = tier == "quick"
    n = 8 if q else 16
    shards = [dict(name=f"gen{i}", kind="gen", n=12 if q else 140, max_pairs=6 if q else 10) for i in range(n)]
    shards.append(dict(name="carried-state", kind="carried", n=15 if q else 300))
    # long streams: whatever a stream decode accumulates per message (regions, carried state, recursion) has time to show
    shards.append(dict(name="long", kind="long", pairs=60 if q else 400, n=1 if q else 3))
    nc = 4 if q else 8
    shards += [dict(name=f"corpus{i}", kind="corpus", start=i, step=nc * (6 if q else 1)) for i in range(nc)]
    return shards


def same(a, b):
    return (a.kind == b.kind and a.path == b.path and a.tname == b.tname and a.value == b.value and a.vclass == b.vclass
            and (a.kind != "M" or a.raw == b.raw))


def check_stream(case, rec):
    from tpmstream.common.object import events_to_obj, events_to_objs

    ref = case.ref()
    if ref.outcome.kind != "ok":
        rec.count(f"stream_not_wellformed_{ref.outcome.kind}")
        return
    # every third stream (and its individual messages) is decoded under a root path other than '.'
    rooted = rec.evaluations % 3 == 1
    if rooted:
        rec.count("rooted_streams")
    ts = TR.run("CommandResponseStream", case.d, strict=True, rooted=rooted)
    if ts.root_escapes:
        rec.violation("root-path", "path-outside-root", f"{case.short()}\nstream decoded with root_path='.log.msg[2]': {TR.pstr(ts.root_escapes[0])} does not lie under that root", case.replay())
    rec.case(case.sig, nontrivial=len(ref.messages) > 1)
    rec.count("messages", len(ref.messages))
    if ts.outcome[0] != "ok":
        rec.violation("stream-outcome", f"stream:{ts.okind()}", f"{case.short()}\nwell-formed stream of {len(ref.messages)} messages ended with {ts.outcome}", case.replay())
        return
    singles = []
    per_message = []
    for m in ref.messages:
        b = case.d[m.start : m.end]
        if m.kind == "command":
            t = TR.run("Command", b, strict=True, rooted=rooted)
        else:
            t = TR.run("Response", b, strict=True, cc=m.cc, enc=m.enc, rooted=rooted)
            rec.count("responses_enc" if m.enc else "responses_plain")
        if t.outcome[0] != "ok":
            rec.violation("single-outcome", f"{m.kind}:{t.okind()}", f"{case.short()}\nmessage {m} alone ended with {t.outcome}", case.replay())
            return
        per_message.append((m, t))
        singles.extend(t.events)
        # the individual decode must itself be the interpretation of these bytes under *this* message's command code
        # (a defect common to the stream path and the single path would otherwise cancel out in the comparison below)
        mref = R.decode("Command" if m.kind == "command" else "Response", b, cc=m.cc if m.kind == "response" else None, enc=m.enc if m.kind == "response" else None)
        mm = cmp.ev_mismatch(mref.events, t.mevents) if mref.outcome.kind == "ok" else None
        if mm:
            rec.violation("single-vs-reference", f"{m.kind}:{mm['what']}", f"{case.short()}\nmessage {m} decoded alone: event #{mm['index']} {mm['what']}: decoder {mm['got']} reference {mm['expected']}", case.replay())
            return
    if len(singles) != len(ts.events) or not all(same(a, b) for a, b in zip(ts.events, singles)):
        i = next((i for i, (a, b) in enumerate(zip(ts.events, singles)) if not same(a, b)), min(len(singles), len(ts.events)))
        a = ts.events[i] if i < len(ts.events) else None
        b = singles[i] if i < len(singles) else None
        which = "type-object" if (a and b and a.kind == "M" and a.path == b.path and a.tname == b.tname and a.value == b.value) else "events"
        rec.violation("concat", which, f"{case.short()}\nstream event #{i} {a!r} != individual decode {b!r} (stream {len(ts.events)} events, individual {len(singles)})", case.replay())
    # objects (the conversion works on paths below the default root)
    if rooted:
        return
    try:
        objs = list(events_to_objs([e.raw for e in ts.events]))
    except Exception as e:
        rec.violation("objects", "events_to_objs-raises:" + TR.mechanism(e), f"{case.short()}\nevents_to_objs raised {type(e).__name__}: {e}", case.replay())
        return
    if len(objs) != len(ref.messages):
        rec.violation("objects", "count", f"{case.short()}\n{len(objs)} objects for {len(ref.messages)} messages", case.replay())
        return
    for i, ((m, t), o) in enumerate(zip(per_message, objs)):
        want = "Command" if m.kind == "command" else "Response"
        if type(o).__name__ != want:
            rec.violation("objects", "kind", f"{case.short()}\nobject #{i} is a {type(o).__name__}, message is a {want}", case.replay())
            return
        try:
            single = events_to_obj([e.raw for e in t.events], command_code=None if m.kind == "command" else TR.cc_obj(m.cc))
        except Exception as e:
            rec.violation("objects", "events_to_obj-raises:" + TR.mechanism(e), f"{case.short()}\nevents_to_obj raised on message {i}: {e}", case.replay())
            return
        if o != single:
            rec.violation("objects", "unequal", f"{case.short()}\nobject #{i} of the stream != object of the individual decode", case.replay())
            return
    # the conversion takes any iterable: an iterator over the events and the live stream decoder give the same objects
    try:
        o_iter = list(events_to_objs(iter([e.raw for e in ts.events])))
        o_live = list(events_to_objs(TR.open_decode("CommandResponseStream", case.d, True)))
        rec.count("object_feeds_compared")
        for label, other in (("an iterator", o_iter), ("the live decoder", o_live)):
            if len(other) != len(objs) or any(a != b for a, b in zip(other, objs)):
                rec.violation("objects", f"feed:{label.split()[-1]}", f"{case.short()}\nevents_to_objs fed with {label} yields {len(other)} objects that differ from the {len(objs)} obtained from a list", case.replay())
    except Exception as e:
        rec.violation("objects", "feed-raises:" + TR.mechanism(e), f"{case.short()}\nevents_to_objs fed with an iterator / the live decoder raised {type(e).__name__}: {e}", case.replay())
    rec.count("objects_compared", len(objs))
    rec.sample(dict(case=case.short(), messages=len(ref.messages), events=len(ts.events)), cap=3)


def check_padded_stream(case, msgs, rec, rng):
    """Warn mode: some messages (always possibly the last) are declared longer than their structure and carry that many
    filler bytes; a message's boundary is still what its own size field says.  The stream decode must equal the
    concatenation of the individual warn-mode decodes (response decoded with its command's code and encryption request)."""
    ref = case.ref()
    if ref.outcome.kind != "ok" or len(ref.messages) != len(msgs):
        return
    n = len(msgs)
    pick = {n - 1} if rng.random() < 0.6 else set()
    pick.add(rng.randrange(n))
    parts = []
    for i, m in enumerate(msgs):
        b = m.d
        if i in pick:
            k = rng.choice((1, 2, 5, 9))
            b = b[:2] + (len(b) + k).to_bytes(4, "big") + b[6:] + bytes([0xE0 + j for j in range(k)])
        parts.append(b)
    metas = [(rm.kind, rm.cc, rm.enc) for rm in ref.messages]
    rec.count("padded_streams")
    if n - 1 in pick:
        rec.count("padded_streams_last_message")
    compare_padded(parts, metas, rec, dict(kind="padded", messages=sorted(pick), of=n), ("padded", case.sig, tuple(sorted(pick))))


def compare_padded(parts, metas, rec, fault, sig):
    data = b"".join(parts)
    pc = cases.Case("CommandResponseStream", data, origin="padded-stream", fault=fault, sig=sig)
    rep = pc.replay(parts=[p.hex() for p in parts], metas=[list(m) for m in metas])
    ts = TR.run("CommandResponseStream", data, strict=False)
    rec.case(pc.sig, nontrivial=True)
    singles = []
    for (kind, cc, enc), b in zip(metas, parts):
        t = TR.run("Command", b, strict=False) if kind == "command" else TR.run("Response", b, strict=False, cc=cc, enc=enc)
        if t.outcome[0] != "ok":
            rec.count(f"padded_single_{t.okind()}")
            return
        singles.extend(t.events)
    if ts.outcome[0] != "ok":
        rec.violation("padded-stream", f"stream:{ts.okind()}", f"{pc.short()}\nwarn-mode stream decode ended with {ts.outcome}; every message decodes alone", rep)
        return
    key = lambda e: (e.kind, e.path, e.tname, e.value) if e.kind == "M" else ("W", e.err["cls"], e.err.get("cpath"))
    a, b = [key(e) for e in ts.events], [key(e) for e in singles]
    if a != b:
        i = next((k for k, (x, y) in enumerate(zip(a, b)) if x != y), min(len(a), len(b)))
        rec.violation("padded-stream", "concat", f"{pc.short()}\nwarn-mode stream decode ({len(a)} events) != concatenation of the individual decodes ({len(b)}); first difference at #{i}: "
                                                f"{ts.events[i] if i < len(a) else None!r} vs {singles[i] if i < len(b) else None!r}", rep)


def run_shard(shard, rec):
    rng = random.Random(f"{shard.get('seed', 0)}:C09:{shard['name']}")
    with probes.Anchors(ANCHORS, rec):
        if shard["kind"] == "carried":
            for case, _msgs in cases.carried_state_streams(rng, shard["n"]):
                check_stream(case, rec)
                rec.count("carried_state_streams")
        elif shard["kind"] == "long":
            for case, msgs in cases.stream_cases(rng, shard["n"], exactly=shard["pairs"]):
                check_stream(case, rec)
                rec.count("long_streams")
                rec.count("long_stream_messages", len(msgs))
        elif shard["kind"] == "gen":
            for case, msgs in cases.stream_cases(rng, shard["n"], max_pairs=shard["max_pairs"], big=shard.get("tier") == "thorough"):
                check_stream(case, rec)
                check_padded_stream(case, msgs, rec, rng)
        else:
            st = corpus.streams()
            names = sorted(st)[shard["start"] :: shard["step"]]
            for n in names:
                check_stream(cases.Case("CommandResponseStream", st[n], origin=f"corpus:{n}", sig=("corpus", n)), rec)


def finish(m, tier):
    inc = probes.missing(m, ANCHORS)
    for k in ("responses_enc", "responses_plain", "objects_compared", "carried_state_streams", "long_streams", "padded_streams_last_message", "rooted_streams", "object_feeds_compared"):
        if not m["counters"].get(k):
            inc.append(f"no case of {k}")
    return dict(inconclusive=inc)


def replay(r, rec):
    if r.get("parts"):
        compare_padded([bytes.fromhex(p) for p in r["parts"]], [tuple(m) for m in r["metas"]], rec, r.get("fault"), ("replay",))
        return
    check_stream(cases.Case.from_replay(r), rec)
