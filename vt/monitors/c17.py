"""C17 - attribute words decompose into fields that partition their bits.

Oracle: bit arithmetic; the field list is cross-checked with the pinned snapshot so that a removed or
narrowed field is seen.  The pretty rows are obtained by decoding the word with the real decoder and
printing it with the real printer.
"""
import random
import re

from .. import layout

PROPERTY = "C17"
LEVEL = "exploration"
RULE = (
    "for each of the 12 attribute-word types: masks checked exhaustively (pairwise disjoint, cover the word, equal the "
    "pinned field list); values: all 256 for 8-bit types, walking ones/zeros + every single-field pattern + seeded "
    "random words for 32-bit types; per value every accessor and every printed bit row is checked; single fields, pairs of fields, zero, all-ones and sampled words are also built by other routes (from a typed word, from a sized integer type, from the type's named masks combined with |) and must give the same accessors and rows; words are also printed where they occur - every attribute-typed field of generated structures and of messages with sessions is overwritten with test words and the lines below each word's row must be its bit rows; distinct = distinct "
    "(type, value) pairs"
)
ASSUMPTIONS = ["pinned field masks (TPMA_LOCALITY.extended corrected to 0xE0 per Part 2, 8.5)"]
ANSI = re.compile(r"\x1b\[[0-9;]*m")


def plan(tier, seed):
    P = layout.pinned()
    names = sorted(n for n, d in P["types"].items() if d["kind"] == "prim" and "bits" in d)
    # one more shard prints words of all types in one process, the same numeric values back to back in both
    # orders of width: a printer that carries state from one word to the next (caches, shared buffers) shows here
    return [dict(name=n, type=n) for n in names] + [dict(name="mixed-types", type=None, types=names), dict(name="context", type=None, kind="context")]


def values_for(d, rng, tier):
    w = 8 * d["width"]
    if w <= 8:
        return list(range(1 << w)), True
    vals = {0, (1 << w) - 1}
    for i in range(w):
        vals.add(1 << i)
        vals.add(((1 << w) - 1) ^ (1 << i))
    for mask in d["bits"].values():
        vals.add(mask)
        vals.add(mask & -mask)
        vals.add(1 << (mask.bit_length() - 1))
        vals.add(((1 << w) - 1) ^ mask)
    n = 300 if tier == "quick" else 10000
    for _ in range(n):
        vals.add(rng.getrandbits(w))
    return sorted(vals), False


def check_masks(tn, T, d, rec):
    w = 8 * d["width"]
    full = (1 << w) - 1
    attrs = T(0).attributes()
    live = {a._name: int(a._value) for a in attrs}
    rec.case((tn, "masks"))
    union = 0
    for name, mask in live.items():
        if union & mask:
            rec.violation("masks-overlap", f"{tn}", f"{tn}.{name} = {mask:#x} overlaps other fields ({union & mask:#x})", dict(type=tn))
        union |= mask
    if union != full:
        rec.violation("masks-cover", f"{tn}", f"{tn}: bits {full ^ union:#x} belong to no field", dict(type=tn))
    if live != d["bits"]:
        diff = {k: (live.get(k), d["bits"].get(k)) for k in set(live) | set(d["bits"]) if live.get(k) != d["bits"].get(k)}
        rec.violation("masks-pinned", f"{tn}", f"{tn}: field masks differ from the pinned layout (live, pinned): {diff}", dict(type=tn))
    if [a._name for a in attrs] != [n for n, _m in sorted(live.items(), key=lambda kv: kv[1])]:
        rec.violation("rows-order", f"{tn}", f"{tn}: attributes() is not ordered by bit position", dict(type=tn))
    return live


def ctz(m):
    return (m & -m).bit_length() - 1


def check_value(tn, T, d, live, v, rec, printed=True):
    from tpmstream.io.binary import Binary
    from tpmstream.io.pretty import Pretty

    w = 8 * d["width"]
    rec.case((tn, v))
    x = T(v)
    for name, mask in live.items():
        got = getattr(x, name)
        exp = (v & mask) >> ctz(mask)
        if got != exp or isinstance(got, bool) and False:
            rec.violation("accessor", f"{tn}.{name}", f"{tn}({v:#x}).{name} = {got!r}, expected {exp:#x} (mask {mask:#x})", dict(type=tn, value=v))
    if not printed:
        return
    events = list(Binary.marshal(tpm_type=T, buffer=v.to_bytes(d["width"], "big")))
    lines = [ANSI.sub("", l) for l in Pretty.unmarshal(events)]
    rows = [l.split() for l in lines[1:]]
    check_rows(tn, d, v, rows, lines, rec, dict(type=tn, value=v))


def check_routes(tn, T, d, live, v, rec):
    """The same word arriving by the routes a caller has: an already typed word, a sized plain integer type, the type's own
    named masks combined with | (for words that are unions of whole fields).  Accessors and printed rows must not depend
    on the route."""
    from functools import reduce
    from operator import or_

    from tpmstream.common.event import MarshalEvent
    from tpmstream.common.path import Path
    from tpmstream.io.pretty import Pretty
    from tpmstream.spec.structures import base_types

    routes = [("typed-word", lambda: T(T(v)))]
    U = getattr(base_types, f"UINT{8 * d['width']}", None)
    if U is not None:
        routes.append(("sized-integer", lambda: T(U(v))))
    names = [n for n, m in live.items() if m > 0 and v & m == m]
    if names and reduce(or_, (live[n] for n in names)) == v:
        routes.append(("named-masks", lambda: T(reduce(or_, (getattr(T, n) for n in names)))))
        if len(names) >= 2:
            routes.append(("int-or-named-mask", lambda: T(0 | reduce(or_, (getattr(T, n) for n in names)))))
    for label, make in routes:
        rep = dict(type=tn, value=v, route=label)
        try:
            x = make()
            rec.count(f"route_{label}")
            for name, mask in live.items():
                got = getattr(x, name)
                exp = (v & mask) >> ctz(mask)
                if got != exp:
                    rec.violation("accessor", f"{tn}.{name}:route", f"{tn}({v:#x}) built as {label}: .{name} = {got!r}, expected {exp:#x}", rep)
                    break
            lines = [ANSI.sub("", l) for l in Pretty.unmarshal([MarshalEvent(Path.from_string(".word"), T, x)])]
            rows = [[t for t in l.split() if t != "|"] for l in lines[1:]]
            check_rows(tn, d, v, rows, lines, rec, rep, where=f" built as {label}")
        except Exception as e:
            rec.violation("route-raises", f"{tn}:{label}", f"{tn}({v:#x}) built as {label}: {type(e).__name__}: {e}", rep)


def check_rows(tn, d, v, rows, lines, rec, rep, where=""):
    """rows: the token lists of the bit rows printed for the word v of type tn."""
    w = 8 * d["width"]
    pinned = sorted(d["bits"].items(), key=lambda kv: kv[1])
    if len(rows) != len(pinned):
        rec.violation("rows-count", f"{tn}", f"{tn}({v:#x}){where}: {len(rows)} bit rows for {len(pinned)} fields: {lines[:12]}", rep)
        return
    overlay = ["."] * w
    seen = set()
    for toks in rows:
        label = next((t for t in toks if t.startswith(".") and not set(t) <= set("01.")), None)
        bits = next((t for t in toks if len(t) == w and set(t) <= set("01.")), None)
        if label is None or bits is None or label[1:] not in d["bits"]:
            rec.violation("rows-form", f"{tn}", f"{tn}({v:#x}){where}: unreadable bit row {toks}", rep)
            return
        name = label[1:]
        if name in seen:
            rec.violation("rows-dup", f"{tn}.{name}", f"{tn}({v:#x}){where}: field {name} shown twice", rep)
        seen.add(name)
        mask = d["bits"][name]
        for i, ch in enumerate(bits):
            bit = w - 1 - i
            if (mask >> bit) & 1:
                if ch != str((v >> bit) & 1):
                    rec.violation("rows-bits", f"{tn}.{name}", f"{tn}({v:#x}){where}: row {name} shows {bits}, bit {bit} wrong", rep)
                    return
                if overlay[i] != ".":
                    rec.violation("rows-overlap", f"{tn}.{name}", f"{tn}({v:#x}){where}: bit {bit} shown twice", rep)
                    return
                overlay[i] = ch
            elif ch != ".":
                rec.violation("rows-bits", f"{tn}.{name}", f"{tn}({v:#x}){where}: row {name} shows a bit outside its mask: {bits}", rep)
                return
    if "".join(overlay) != f"{v:0{w}b}":
        rec.violation("rows-overlay", f"{tn}", f"{tn}({v:#x}){where}: overlay {''.join(overlay)} != {v:0{w}b}", rep)
    rec.count("rows_checked", len(rows))


CONTEXT_TYPES = ("TPMS_ACT_DATA", "TPMS_ALGORITHM_DESCRIPTION", "TPMS_ALG_PROPERTY", "TPMS_AUTH_COMMAND", "TPMS_AUTH_RESPONSE",
                 "TPMS_CREATION_DATA", "TPMS_NV_PUBLIC", "TPMT_PUBLIC", "TPM2B_PUBLIC", "TPM2B_NV_PUBLIC", "TPM2B_CREATION_DATA",
                 "TPML_ALG_PROPERTY", "TPML_ACT_DATA", "TPMS_CAPABILITY_DATA", "TPMS_CONTEXT")
CONTEXT_CCS = ("CreatePrimary", "Create", "CreateLoaded", "NV_ReadPublic", "NV_DefineSpace", "PolicyLocality", "GetCapability",
               "ReadPublic", "Load", "LoadExternal", "CertifyCreation", "GetRandom", "Startup", "NV_Read", "PCR_Read")


def run_context(shard, rec):
    """Attribute words where they really occur: inside structures and messages (behind buffers, lists, handles, other
    words), several per message.  Every attribute-typed field of a generated encoding is overwritten with test words;
    the decoder's events say which words were shown, the printed lines below each word's row must be its bit rows."""
    from tpmstream.io.pretty import Pretty

    from .. import cases, gen
    from .. import trace as TR

    P = layout.pinned()["types"]
    attr = {n for n, d in P.items() if d["kind"] == "prim" and "bits" in d}
    rng = random.Random(f"{shard.get('seed', 0)}:C17:context")
    thorough = shard.get("tier") == "thorough"
    codes = layout.pinned()["command_codes"]
    ccs = [codes[n] for n in CONTEXT_CCS if n in codes]
    bases = list(cases.struct_cases([t for t in CONTEXT_TYPES if t in P], rng, 3 if thorough else 1))
    cfgs = [c for c in cases.CONFIGS if c.get("sessions")] or cases.CONFIGS
    for c, r in cases.msg_cases(ccs, rng, 1, configs=cfgs[: (6 if thorough else 2)]):
        bases += [c, r]
    for base in bases:
        bref = base.ref()
        if bref.outcome.kind != "ok":
            continue
        words = [e for e in bref.events if e.tname in attr and e.value is not None]
        if not words:
            continue
        rec.count("context_bases")
        for round_ in range(24 if thorough else 5):
            d = base.d
            for e in words:
                w = 8 * P[e.tname]["width"]
                masks = list(P[e.tname]["bits"].values())
                v = rng.choice((rng.getrandbits(w), rng.choice(masks), (1 << w) - 1, ((1 << w) - 1) ^ rng.choice(masks), 1 << rng.randrange(w), e.value))
                if e.tname == "TPMA_SESSION" and base.t == "Response" and not base.enc:
                    v &= ~0x40  # a response session that says 'encrypt' contradicts the flag: decoding stops (known finding D10)
                d = cases.patch(d, e.span, v, False) or d
            t = TR.run(base.t, d, strict=False, cc=base.cc, enc=base.enc)
            if t.outcome[0] not in ("ok",):
                rec.count(f"context_decode_{t.outcome[0]}")
                continue
            shown = [e for e in t.mevents if e.tname in attr and e.value is not None and e.path[-1][1] is None]
            lines = [ANSI.sub("", l) for l in Pretty.unmarshal([e.raw for e in t.events])]
            toks = [l.split() for l in lines]
            k = 0
            i = 0
            rep = dict(context=True, t=base.t, cc=base.cc, enc=base.enc, hex=d.hex())
            while i < len(toks):
                tk = toks[i]
                if tk and tk[0] in attr and k < len(shown) and tk[0] == shown[k].tname and len(tk) > 1 and not tk[1].endswith("]"):
                    ev = shown[k]
                    k += 1
                    j = i + 1
                    while j < len(toks) and toks[j] and (toks[j][0].startswith("|") or toks[j][0].startswith(".")):
                        j += 1
                    rec.case(("context", base.t, base.cc, TR.pstr(ev.path), ev.value), nontrivial=True)
                    rec.count("context_words")
                    check_rows(ev.tname, P[ev.tname], ev.value, [[x for x in row if x != "|"] for row in toks[i + 1 : j]], lines[i : i + 6], rec, rep,
                               where=f" at {TR.pstr(ev.path)} of a {base.t}{'' if base.cc is None else f' (code {base.cc:#x})'}, line {i}")
                    i = j
                else:
                    i += 1
            if k != len(shown):
                rec.violation("context-row-missing", "word-row", f"{base.short()}\n{len(shown)} attribute words were decoded (not list elements), {k} word rows found in the printed output", rep)
    rec.count("context_shards")


def run_mixed(shard, rec):
    from ..trace import type_by_name

    P = layout.pinned()["types"]
    rng = random.Random(f"{shard.get('seed', 0)}:C17:mixed")
    types = [(tn, type_by_name(tn), P[tn]) for tn in shard["types"]]
    lives = {tn: {a._name: int(a._value) for a in T(0).attributes()} for tn, T, d in types}
    vals = list(range(0, 256)) if shard.get("tier") == "thorough" else sorted(set(list(range(0, 40)) + [0x40, 0x60, 0x80, 0xC0, 0xE0, 0xFF] + [rng.randrange(256) for _ in range(20)]))
    for v in vals:
        order = list(types)
        rng.shuffle(order)
        for tn, T, d in order + order[::-1]:
            check_value(tn, T, d, lives[tn], v, rec)
    rec.count("mixed_sequences", len(vals))


def run_shard(shard, rec):
    from ..trace import type_by_name

    if shard.get("kind") == "context":
        run_context(shard, rec)
        return
    if shard["type"] is None:
        run_mixed(shard, rec)
        return
    tn = shard["type"]
    d = layout.pinned()["types"][tn]
    T = type_by_name(tn)
    rng = random.Random(f"{shard.get('seed', 0)}:C17:{tn}")
    # first thing in this fresh interpreter, before attributes(), str() or the printer have touched the class: accessors of
    # words built from the pinned masks (what code does that decodes a word and reads a field, without printing it)
    w0 = 8 * d["width"]
    for v in sorted({(1 << w0) - 1} | set(d["bits"].values()) | {m & -m for m in d["bits"].values() if m > 0}):
        if not 0 <= v < (1 << w0):
            continue
        x = T(v)
        for name, mask in d["bits"].items():
            if mask <= 0:
                continue
            got = getattr(x, name)
            exp = (v & mask) >> ctz(mask)
            rec.count("early_accessor_reads")
            if got != exp:
                rec.violation("accessor", f"{tn}.{name}:early", f"{tn}({v:#x}).{name} = {got!r} when read before anything else touched the type in this process, expected {exp:#x} (mask {mask:#x})", dict(type=tn, value=v, early=True))
                break
    live = check_masks(tn, T, d, rec)
    vals, exhaustive = values_for(d, rng, shard.get("tier", "quick"))
    for v in vals:
        check_value(tn, T, d, live, v, rec)
    # construction routes: every single field, pairs of fields, all fields, zero, and a few other words
    w = 8 * d["width"]
    masks = [m for m in live.values() if m > 0]
    rv = {0, (1 << w) - 1} | set(masks) | {a | b for a in masks[:6] for b in masks[-6:]} | set(rng.sample(vals, min(6, len(vals))))
    for v in sorted(x for x in rv if 0 <= x < (1 << w)):
        check_routes(tn, T, d, live, v, rec)
    rec.count("types")
    rec.count("values_exhaustive_types" if exhaustive else "values_sampled_types")
    rec.sample(dict(type=tn, masks={k: hex(m) for k, m in live.items()}, values=len(vals)))


def finish(m, tier):
    inc = []
    if m["counters"].get("types", 0) != 12:
        inc.append(f"{m['counters'].get('types', 0)} attribute types checked, expected 12")
    if not m["counters"].get("mixed_sequences"):
        inc.append("the mixed-type sequence was not run")
    if not m["counters"].get("route_named-masks") or not m["counters"].get("route_typed-word"):
        inc.append("no word was built from named masks / from a typed word")
    if not m["counters"].get("early_accessor_reads"):
        inc.append("no accessor was read before the type was otherwise used")
    if not m["counters"].get("context_words"):
        inc.append("no attribute word was checked inside a structure or message")
    if not m["counters"].get("rows_checked"):
        inc.append("no printed bit row was checked")
    return dict(inconclusive=inc, coverage=dict(explanation="masks exhaustive for all 12 types; values exhaustive for the 8-bit types"))


def replay(case, rec):
    from ..trace import type_by_name

    tn = case["type"]
    d = layout.pinned()["types"][tn]
    T = type_by_name(tn)
    live = check_masks(tn, T, d, rec)
    if case.get("context"):
        rec.count("replay_of_context_case_needs_the_shard")
        run_context(dict(name="context", kind="context", tier="quick"), rec)
        return
    if case.get("route"):
        check_routes(tn, T, d, live, case["value"], rec)
        return
    if "value" in case:
        check_value(tn, T, d, live, case["value"], rec)
