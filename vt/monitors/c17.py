"""C17 - attribute words decompose into fields that partition their bits.

Oracle: bit arithmetic; the field list is cross-checked with the pinned snapshot so that a removed or
narrowed field is seen.  The pretty rows are obtained by decoding the word with the real decoder and
printing it with the real printer.
"""
import random
import re

from .. import layout

PROPERTY = "C17"
LEVEL = "exploration"
RULE = (
    "for each of the 12 attribute-word types: masks checked exhaustively (pairwise disjoint, cover the word, equal the "
    "pinned field list); values: all 256 for 8-bit types, walking ones/zeros + every single-field pattern + seeded "
    "random words for 32-bit types; per value every accessor and every printed bit row is checked; distinct = distinct "
    "(type, value) pairs"
)
ASSUMPTIONS = ["pinned field masks (TPMA_LOCALITY.extended corrected to 0xE0 per Part 2, 8.5)"]
ANSI = re.compile(r"\x1b\[[0-9;]*m")


def plan(tier, seed):
    P = layout.pinned()
    names = sorted(n for n, d in P["types"].items() if d["kind"] == "prim" and "bits" in d)
    # one more shard prints words of all types in one process, the same numeric values back to back in both
    # orders of width: a printer that carries state from one word to the next (caches, shared buffers) shows here
    return [dict(name=n, type=n) for n in names] + [dict(name="mixed-types", type=None, types=names)]


def values_for(d, rng, tier):
    w = 8 * d["width"]
    if w <= 8:
        return list(range(1 << w)), True
    vals = {0, (1 << w) - 1}
    for i in range(w):
        vals.add(1 << i)
        vals.add(((1 << w) - 1) ^ (1 << i))
    for mask in d["bits"].values():
        vals.add(mask)
        vals.add(mask & -mask)
        vals.add(1 << (mask.bit_length() - 1))
        vals.add(((1 << w) - 1) ^ mask)
    n = 300 if tier == "quick" else 10000
    for _ in range(n):
        vals.add(rng.getrandbits(w))
    return sorted(vals), False


def check_masks(tn, T, d, rec):
    w = 8 * d["width"]
    full = (1 << w) - 1
    attrs = T(0).attributes()
    live = {a._name: int(a._value) for a in attrs}
    rec.case((tn, "masks"))
    union = 0
    for name, mask in live.items():
        if union & mask:
            rec.violation("masks-overlap", f"{tn}", f"{tn}.{name} = {mask:#x} overlaps other fields ({union & mask:#x})", dict(type=tn))
        union |= mask
    if union != full:
        rec.violation("masks-cover", f"{tn}", f"{tn}: bits {full ^ union:#x} belong to no field", dict(type=tn))
    if live != d["bits"]:
        diff = {k: (live.get(k), d["bits"].get(k)) for k in set(live) | set(d["bits"]) if live.get(k) != d["bits"].get(k)}
        rec.violation("masks-pinned", f"{tn}", f"{tn}: field masks differ from the pinned layout (live, pinned): {diff}", dict(type=tn))
    if [a._name for a in attrs] != [n for n, _m in sorted(live.items(), key=lambda kv: kv[1])]:
        rec.violation("rows-order", f"{tn}", f"{tn}: attributes() is not ordered by bit position", dict(type=tn))
    return live


def ctz(m):
    return (m & -m).bit_length() - 1


def check_value(tn, T, d, live, v, rec, printed=True):
    from tpmstream.io.binary import Binary
    from tpmstream.io.pretty import Pretty

    w = 8 * d["width"]
    rec.case((tn, v))
    x = T(v)
    for name, mask in live.items():
        got = getattr(x, name)
        exp = (v & mask) >> ctz(mask)
        if got != exp or isinstance(got, bool) and False:
            rec.violation("accessor", f"{tn}.{name}", f"{tn}({v:#x}).{name} = {got!r}, expected {exp:#x} (mask {mask:#x})", dict(type=tn, value=v))
    if not printed:
        return
    events = list(Binary.marshal(tpm_type=T, buffer=v.to_bytes(d["width"], "big")))
    lines = [ANSI.sub("", l) for l in Pretty.unmarshal(events)]
    rows = [l.split() for l in lines[1:]]
    pinned = sorted(d["bits"].items(), key=lambda kv: kv[1])
    if len(rows) != len(pinned):
        rec.violation("rows-count", f"{tn}", f"{tn}({v:#x}): {len(rows)} bit rows for {len(pinned)} fields: {lines}", dict(type=tn, value=v))
        return
    overlay = ["."] * w
    seen = set()
    for toks in rows:
        label = next((t for t in toks if t.startswith(".") and not set(t) <= set("01.")), None)
        bits = next((t for t in toks if len(t) == w and set(t) <= set("01.")), None)
        if label is None or bits is None or label[1:] not in d["bits"]:
            rec.violation("rows-form", f"{tn}", f"{tn}({v:#x}): unreadable bit row {toks}", dict(type=tn, value=v))
            return
        name = label[1:]
        if name in seen:
            rec.violation("rows-dup", f"{tn}.{name}", f"{tn}({v:#x}): field {name} shown twice", dict(type=tn, value=v))
        seen.add(name)
        mask = d["bits"][name]
        for i, ch in enumerate(bits):
            bit = w - 1 - i
            if (mask >> bit) & 1:
                if ch != str((v >> bit) & 1):
                    rec.violation("rows-bits", f"{tn}.{name}", f"{tn}({v:#x}): row {name} shows {bits}, bit {bit} wrong", dict(type=tn, value=v))
                    return
                if overlay[i] != ".":
                    rec.violation("rows-overlap", f"{tn}.{name}", f"{tn}({v:#x}): bit {bit} shown twice", dict(type=tn, value=v))
                    return
                overlay[i] = ch
            elif ch != ".":
                rec.violation("rows-bits", f"{tn}.{name}", f"{tn}({v:#x}): row {name} shows a bit outside its mask: {bits}", dict(type=tn, value=v))
                return
    if "".join(overlay) != f"{v:0{w}b}":
        rec.violation("rows-overlay", f"{tn}", f"{tn}({v:#x}): overlay {''.join(overlay)} != {v:0{w}b}", dict(type=tn, value=v))
    rec.count("rows_checked", len(rows))


def run_mixed(shard, rec):
    from ..trace import type_by_name

    P = layout.pinned()["types"]
    rng = random.Random(f"{shard.get('seed', 0)}:C17:mixed")
    types = [(tn, type_by_name(tn), P[tn]) for tn in shard["types"]]
    lives = {tn: {a._name: int(a._value) for a in T(0).attributes()} for tn, T, d in types}
    vals = list(range(0, 256)) if shard.get("tier") == "thorough" else sorted(set(list(range(0, 40)) + [0x40, 0x60, 0x80, 0xC0, 0xE0, 0xFF] + [rng.randrange(256) for _ in range(20)]))
    for v in vals:
        order = list(types)
        rng.shuffle(order)
        for tn, T, d in order + order[::-1]:
            check_value(tn, T, d, lives[tn], v, rec)
    rec.count("mixed_sequences", len(vals))


def run_shard(shard, rec):
    from ..trace import type_by_name

    if shard["type"] is None:
        run_mixed(shard, rec)
        return
    tn = shard["type"]
    d = layout.pinned()["types"][tn]
    T = type_by_name(tn)
    rng = random.Random(f"{shard.get('seed', 0)}:C17:{tn}")
    live = check_masks(tn, T, d, rec)
    vals, exhaustive = values_for(d, rng, shard.get("tier", "quick"))
    for v in vals:
        check_value(tn, T, d, live, v, rec)
    rec.count("types")
    rec.count("values_exhaustive_types" if exhaustive else "values_sampled_types")
    rec.sample(dict(type=tn, masks={k: hex(m) for k, m in live.items()}, values=len(vals)))


def finish(m, tier):
    inc = []
    if m["counters"].get("types", 0) != 12:
        inc.append(f"{m['counters'].get('types', 0)} attribute types checked, expected 12")
    if not m["counters"].get("mixed_sequences"):
        inc.append("the mixed-type sequence was not run")
    if not m["counters"].get("rows_checked"):
        inc.append("no printed bit row was checked")
    return dict(inconclusive=inc, coverage=dict(explanation="masks exhaustive for all 12 types; values exhaustive for the 8-bit types"))


def replay(case, rec):
    from ..trace import type_by_name

    tn = case["type"]
    d = layout.pinned()["types"][tn]
    T = type_by_name(tn)
    live = check_masks(tn, T, d, rec)
    if "value" in case:
        check_value(tn, T, d, live, case["value"], rec)
