"""Deterministic oracles over recorded traces.  Each returns a list of findings
``(rule, mechanism, message)``; an empty list means the clause held on this case."""
from . import cmp, layout
from . import refmodel as R
from . import trace as TR

SIZE_KINDS = ("exceeded", "subceeded", "anticipated")
VALUE_KINDS = ("value", "unknown_cc")
LENGTH_KINDS = ("depleted", "superfluous")
UNSPECIFIED = ("selector", "enc_unsupported", "enc_mismatch", "layout")


def ref_kind(ref):
    k = ref.outcome.kind
    if k == "unknown_cc" and ref.outcome.kw.get("response"):
        return "unspecified"
    if k in UNSPECIFIED:
        return "unspecified"
    return k


def fault_key(case):
    f = case.fault or {}
    if not f:
        return "wellformed"
    if f.get("kind") == "size":
        return f"size:{f.get('fkind')}:{f.get('change')}"
    if f.get("kind") == "value":
        return f"value:{f.get('change')}"
    return str(f.get("kind"))


def last_prim_index(ref_events):
    for i in range(len(ref_events) - 1, -1, -1):
        if ref_events[i].value is not None:
            return i
    return -1


_N = 0


def strict_vs_ref(case, ref=None, t=None):
    """Compare a strict decode of ``case`` with the reference.  Returns (ref, trace, kind, findings)."""
    if ref is None:
        ref = case.ref(strict=True)
    out = []
    if t is None:
        # every fifth decode is given a root path other than '.': all paths it reports must lie under it
        global _N
        _N += 1
        rooted = _N % 5 == 3
        t = TR.run(case.t, case.d, strict=True, cc=case.cc, enc=case.enc, rooted=rooted)
        if rooted and t.root_escapes:
            out.append(("root-path", "path-outside-root", f"decoded with root_path='.log.msg[2]': {TR.pstr(t.root_escapes[0])} does not lie under that root"))
    kind = ref_kind(ref)
    if kind == "unspecified":
        return ref, t, kind, out
    got = cmp.norm_outcome(t)
    if got[0] == "internal":
        out.append(("outcome", f"{kind}->internal:{got[1]}", f"reference expects {kind}, decoder failed internally: {t.outcome[1]}: {t.outcome[2]}"))
        return ref, t, kind, out
    # events
    if kind == "ok":
        m = cmp.ev_mismatch(ref.events, t.mevents)
    else:
        m = cmp.prefix_mismatch(ref.events, t.mevents)
        if m is None:
            need = len(ref.events) if kind not in ("depleted", "exceeded") else last_prim_index(ref.events) + 1
            if len(t.mevents) < need:
                m = dict(index=len(t.mevents), what="missing event before the error", got=None, expected=repr(ref.events[len(t.mevents)]))
    if m:
        out.append(("events", f"{kind}:{m['what']}", f"event #{m['index']}: {m['what']}: decoder {m['got']} reference {m['expected']}"))
    o = cmp.outcome_mismatch(ref, t)
    if o:
        out.append(("outcome", f"{kind}->{got[0]}", o))
    if t.warnings:
        out.append(("events", f"{kind}:warning in strict mode", f"strict mode emitted a warning event: {t.warnings[0]!r}"))
    return ref, t, kind, out


def expected_cc(case, ref):
    """Acceptable values of the command_code attribute of a depleted / superfluous error."""
    n = len(case.d)
    hist = [(p, c) for p, c in ref.cc_hist if p <= n]
    if case.t == "Response":
        return {None, case.cc}
    if case.t == "Command":
        return {hist[-1][1]} if hist else {None}
    if case.t == "CommandResponseStream":
        if not hist:
            return {None}
        acc = {hist[-1][1]}
        later = [m for m in ref.messages if m.kind == "command" and m.start >= hist[-1][0]]
        if later:
            acc.add(None)
        return acc
    return {None}


def length_cc(case, ref, t):
    out = []
    if t.outcome[0] in ("depleted", "superfluous"):
        cc = t.outcome[-1]
        acc = expected_cc(case, ref)
        if cc not in acc:
            out.append(("command_code", f"{t.outcome[0]}:{case.t}", f"error carries command_code={cc}, expected one of {sorted(acc, key=str)}"))
    return out


def conservation_strict(case, ref, t):
    """C13: input = bytes of the emitted fields + consumed offending bytes + remaining bytes."""
    out = []
    if t.outcome[0] != "constraint":
        return out
    e = t.outcome[1]
    data = case.d
    emitted = b"".join(ev.chunk for ev in t.mevents if isinstance(ev.chunk, bytes))
    rem = e.get("rem")
    cls = e["cls"]
    if not isinstance(rem, bytes):
        out.append(("remaining", f"{cls}:unreadable", f"bytes_remaining is {rem!r}"))
        return out
    if data[: len(emitted)] != emitted:
        out.append(("emitted", f"{cls}:emitted-not-prefix", "bytes of the emitted fields are not a prefix of the input"))
        return out
    if cls == "ValueConstraintViolatedError":
        width = layout.pinned()["types"].get(e.get("tname"), {}).get("width")
        if width is None and ref.outcome.kind in VALUE_KINDS:
            sp = ref.outcome.kw.get("span")
            width = sp[1] - sp[0] if sp else None
        if width is None:
            return out
        off = data[len(emitted) : len(emitted) + width]
    elif cls == "SizeConstraintExceededError":
        # the rest of the overrun region: from the end of the emitted fields to the declared end of the named region
        end = None
        if ref.outcome.kind == "exceeded":
            for a in ref.outcome.kw["alts"]:
                if R.path_matches(a["cpath"], e.get("cpath")):
                    end = a["region_end"]
        if end is None:
            # model-free fallback: region end from the error's own figures
            end = len(emitted) + max(0, (e.get("max") or 0) - (e.get("already") or 0))
        off = data[len(emitted) : max(end, len(emitted))]
    else:
        off = b""
    exp_rem = data[len(emitted) + len(off):]
    if rem != exp_rem:
        why = "duplicated" if len(rem) > len(exp_rem) else "dropped"
        out.append(("remaining", f"{cls}:{why}",
                    f"{cls}: emitted {len(emitted)} + offending {len(off)} + remaining {len(rem)} != input {len(data)}; remaining={rem.hex()[:60]} expected={exp_rem.hex()[:60]}"))
    return out


def chunks_conservation(case, ref, t, require_all=True):
    """C02: every primitive event re-encodes to the input slice at its offset with the pinned width; structural and
    warning events re-encode to nothing; the concatenation is the input."""
    out = []
    P = layout.pinned()["types"]
    pos = 0
    for ev in t.events:
        ch = ev.chunk
        if not isinstance(ch, bytes):
            out.append(("chunk", f"to_bytes-raises:{type(ch).__name__}", f"re-encoding {ev!r} raised {ch!r}"))
            return out
        if ev.kind == "W" or ev.value is None:
            if ch:
                out.append(("chunk", "structural-nonempty", f"{ev!r} re-encodes to {ch.hex()}"))
            continue
        w = P.get(ev.tname, {}).get("width")
        if w is None:
            out.append(("chunk", "unknown-prim", f"{ev!r}: type not in the pinned layout"))
            continue
        if len(ch) != w:
            out.append(("chunk", f"width:{ev.tname}", f"{ev!r} re-encodes to {len(ch)} bytes, declared width {w}"))
        if case.d[pos : pos + len(ch)] != ch:
            out.append(("chunk", f"slice:{ev.tname}", f"{ev!r} re-encodes to {ch.hex()} but input[{pos}:{pos + len(ch)}] = {case.d[pos:pos + len(ch)].hex()}"))
            return out
        pos += len(ch)
    if require_all and pos != len(case.d):
        out.append(("concat", "length", f"re-encoded {pos} bytes, input has {len(case.d)}"))
    return out
