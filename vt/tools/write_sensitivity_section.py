"""Refresh the two sensitivity tables between the SENS markers of DESIGN.md from results.json / seeded metas."""
import io
import os
from contextlib import redirect_stdout

from .. import env
from . import report_sensitivity


def main():
    buf = io.StringIO()
    with redirect_stdout(buf):
        report_sensitivity.main()
    p = os.path.join(env.VERIF_ROOT, "DESIGN.md")
    s = open(p).read()
    a, b = s.index("<!-- SENS-BEGIN -->"), s.index("<!-- SENS-END -->")
    s = s[: a + len("<!-- SENS-BEGIN -->")] + "\n" + buf.getvalue() + s[b:]
    open(p, "w").write(s)
    print("DESIGN.md tables refreshed")


if __name__ == "__main__":
    main()
