"""Refresh the two sensitivity tables between the SENS markers of DESIGN.md from results.json / seeded metas."""
import io
import os
from contextlib import redirect_stdout

from .. import env
from . import report_sensitivity


def main():
    buf = io.StringIO()
    with redirect_stdout(buf):
        report_sensitivity.main()
    p = os.path.join(env.VERIF_ROOT, "DESIGN.md")
    s = open(p).read()
    a, b = s.index("<!-- SENS-BEGIN -->"), s.index("<!-- SENS-END -->")
    s = s[: a + len("<!-- SENS-BEGIN -->")] + "\n" + buf.getvalue() + s[b:]
    if "<!-- AST-BEGIN -->" in s:
        a, b = s.index("<!-- AST-BEGIN -->"), s.index("<!-- AST-END -->")
        s = s[: a + len("<!-- AST-BEGIN -->")] + "\n" + ast_tables() + s[b:]
    open(p, "w").write(s)
    print("DESIGN.md tables refreshed")


def ast_tables():
    import json
    from collections import Counter

    d = os.path.join(env.VERIF_ROOT, "vt", "mutants")
    res = json.load(open(os.path.join(d, "ast_results.json")))
    tri = json.load(open(os.path.join(d, "ast_triage.json")))
    per = {}
    for k, v in res.items():
        f = k.split("::")[0]
        c = per.setdefault(f, Counter())
        c["n"] += 1
        if v["status"] == "caught":
            c["caught"] += 1
            c["by_" + v["caught_by"]] += 1
        else:
            c["survived"] += 1
    out = ["| file | mutants | caught by a quick tier | survived | first check to fire (count) |", "|---|---|---|---|---|"]
    for f in sorted(per):
        c = per[f]
        by = ", ".join(f"{k[3:]} ({n})" for k, n in sorted(c.items()) if k.startswith("by_"))
        out.append(f"| `{f}` | {c['n']} | {c['caught']} | {c['survived']} | {by} |")
    tot = Counter()
    for c in per.values():
        tot.update({k: v for k, v in c.items() if k in ("n", "caught", "survived")})
    out.append(f"| **total** | {tot['n']} | {tot['caught']} | {tot['survived']} | |")
    out.append("")
    out.append("| surviving mutant | repository suite | verdict | why |")
    out.append("|---|---|---|---|")
    for k in sorted(res):
        v = res[k]
        if v["status"] == "caught":
            continue
        verdict, why = tri.get(k, ["UNTRIAGED", ""])
        tests = v.get("repo_tests", "")
        tests = "passes" if tests.startswith("14051 passed") else tests.split(",")[0]
        out.append(f"| `{k}` | {tests} | {verdict} | {why} |")
    return "\n".join(out) + "\n"


if __name__ == "__main__":
    main()
