"""Run every registered check (or a subset) for several seeds and print one line per run.

    python -m vt.tools.sweep --tier quick --seeds 0,1,2 [--props C01,C02]
"""
import argparse
import json
import os
import subprocess
import sys
import time

from .. import env


def main():
    ap = argparse.ArgumentParser()
    ap.add_argument("--tier", default="quick")
    ap.add_argument("--seeds", default="0")
    ap.add_argument("--props", default="")
    a = ap.parse_args()
    m = json.load(open(os.path.join(env.VERIF_ROOT, "MANIFEST.json")))
    props = [c["property_id"] for c in m["checks"]]
    if a.props:
        props = [p for p in props if p in a.props.split(",")]
    bad = 0
    for seed in a.seeds.split(","):
        for p in props:
            t0 = time.time()
            e = dict(os.environ, VERIF_SEED=seed, PYTHONHASHSEED="0")
            r = subprocess.run([sys.executable, "-m", "vt.check", p, "--tier", a.tier], cwd=env.VERIF_ROOT, env=e, capture_output=True, text=True)
            last = r.stdout.strip().splitlines()[-1] if r.stdout.strip() else r.stderr[-200:]
            print(f"[{time.strftime('%H:%M:%S')}] seed={seed} exit={r.returncode} {time.time() - t0:6.1f}s {last}", flush=True)
            if r.returncode != 0:
                bad += 1
                print("\n".join(r.stdout.splitlines()[:40]), flush=True)
                print(r.stderr[-1500:], flush=True)
    print("sweep done, non-zero exits:", bad)
    return 1 if bad else 0


if __name__ == "__main__":
    sys.exit(main())
