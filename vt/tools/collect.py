"""collect.py <worktree> <seed id> <property> <origin round> <summary> <needs> : verify a sub-agent's seeded change
(demo fails with / passes without, repository suite unchanged) and store it under /verif/seeded/<id>."""
import json
import os
import shutil
import subprocess
import sys


def sh(cmd, **kw):
    return subprocess.run(cmd, shell=True, capture_output=True, text=True, **kw)


def main():
    wt, sid, prop, rnd, summary, needs = sys.argv[1:7]
    d = f"/verif/seeded/{sid}"
    os.makedirs(d, exist_ok=True)
    open(f"{d}/patch.diff", "w").write(sh(f"git -C {wt} diff").stdout)
    for f in ("demo.py", "NOTES.md"):
        if os.path.exists(f"{wt}/{f}"):
            shutil.copy(f"{wt}/{f}", d)
    env = dict(os.environ, PYTHONPATH=f"{wt}/src")
    e1 = subprocess.run(["timeout", "600", "/venv/bin/python", f"{wt}/demo.py"], env=env, capture_output=True).returncode
    sh(f"git -C {wt} apply -R {d}/patch.diff")
    e0 = subprocess.run(["timeout", "600", "/venv/bin/python", f"{wt}/demo.py"], env=env, capture_output=True).returncode
    sh(f"git -C {wt} apply {d}/patch.diff")
    t = sh("/venv/bin/python -m pytest -q -p no:cacheprovider -n 8 --continue-on-collection-errors test 2>&1 | tail -1", cwd=wt, env=env).stdout.strip()
    ok = e1 == 1 and e0 == 0 and "14051 passed, 12 skipped" in t and "failed" not in t
    meta = dict(property=prop, origin=f"sub-agent, {rnd} round (saw the property text, a scratch worktree and one-line descriptions of earlier seeded ideas to avoid)",
                summary=summary, needs=needs,
                verified=f"demo.py exit {e0} on the unchanged tree / exit {e1} with the patch; repository suite with the patch: {t}")
    json.dump(meta, open(f"{d}/meta.json", "w"), indent=1)
    print(sid, "OK" if ok else "NOT CONFIRMED", f"demo with={e1} without={e0}", t)


if __name__ == "__main__":
    main()
