"""Print the sensitivity tables (markdown) from vt/mutants/results.json and seeded/*/meta.json."""
import json
import os

from .. import env
from ..mutants import catalog


def main():
    res = json.load(open(os.path.join(env.VERIF_ROOT, "vt", "mutants", "results.json")))
    print("| seeded change (sub-agent) | property | what it needs to manifest | caught by (quick tier) |")
    print("|---|---|---|---|")
    root = os.path.join(env.VERIF_ROOT, "seeded")
    for sid in sorted(os.listdir(root)):
        meta = json.load(open(os.path.join(root, sid, "meta.json")))
        r = res.get("seeded/" + sid, {})
        caught = ", ".join(r.get("caught", [])) or "**missed**"
        note = f" ({meta['note']})" if meta.get("note") else ""
        print(f"| `{sid}`: {meta['summary']}{note} | {meta['property']} | {meta['needs']} | {caught} |")
    print()
    print("| catalogue mutant | file | repository suite | expected | caught by | missed |")
    print("|---|---|---|---|---|---|")
    for mu in catalog.M:
        r = res.get(mu["id"])
        if not r or "error" in r:
            print(f"| {mu['id']} | {mu['path']} | - | {', '.join(mu['expect'])} | not run: {r and r.get('error')} | |")
            continue
        t = r.get("repo_tests")
        ts = "-" if t is None else ("passes" if t["passed"] else "differs: " + t["tail"].split(" in ")[0])
        missed = [p for p in mu["expect"] if p not in r["caught"]]
        print(f"| {mu['id']} | {mu['path']} | {ts} | {', '.join(mu['expect'])} | {', '.join(r['caught'])} | {', '.join(missed)} |")


if __name__ == "__main__":
    main()
