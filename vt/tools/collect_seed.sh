#!/bin/bash
# collect_seed.sh <worktree> <seed id> <property> : verify a sub-agent's seeded change and store it under /verif/seeded/<id>
set -u
WT=$1; ID=$2; PROP=$3
D=/verif/seeded/$ID
mkdir -p $D
git -C $WT diff > $D/patch.diff
cp $WT/demo.py $D/demo.py 2>/dev/null
cp $WT/NOTES.md $D/NOTES.md 2>/dev/null
echo "--- patch"; cat $D/patch.diff | head -60
echo "--- demo WITH change"; PYTHONPATH=$WT/src /venv/bin/python $WT/demo.py | tail -3; echo "exit=$?"
git -C $WT stash -q
echo "--- demo WITHOUT change"; PYTHONPATH=$WT/src /venv/bin/python $WT/demo.py | tail -3; echo "exit=$?"
git -C $WT stash pop -q
echo "--- repo tests WITH change"; (cd $WT && PYTHONPATH=$WT/src /venv/bin/python -m pytest -q -p no:cacheprovider -n 8 --continue-on-collection-errors test 2>&1 | tail -1)
