"""Write MANIFEST.json from the table below (run by hand after adding / changing a check)."""
import json
import os

from .. import env

PY = "/venv/bin/python"

CHECKS = {
    # id: (level category, technique, level text, level note, design ref)
}


def add(pid, category, technique, text, note, ref):
    CHECKS[pid] = (category, technique, text, note, ref)


add("C16", "exploration", "runtime contracts around typed-integer construction checked against plain int arithmetic and the pinned value sets",
    "Every clause of the property is evaluated on the real classes for all 102 primitive types: exhaustively for 8-bit "
    "(and, thorough, 16-bit) types, at every allowed-interval boundary and seeded samples for wider types; operators in both "
    "operand orders; families of types sharing a base enumeration are also checked back to back in one process. Held on what was "
    "enumerated; wider types are sampled. For every 32/64-bit type a run of 3000 (thorough 70000) distinct valid values is constructed and the early ones revisited.",
    "Trusted: CPython int semantics; pinned widths/sets/names.", "DESIGN.md 4/C16")
add("C17", "exploration", "bit-arithmetic oracle over live masks, accessors and printed rows (masks exhaustive)",
    "Masks of all 12 attribute types are checked exhaustively (disjoint, covering, equal to the pinned fields); accessors and "
    "printer rows are checked on all 256 values of 8-bit types and on walking/single-field/seeded words for 32-bit types. Words are also checked where they occur (inside structures and messages with sessions) and when built by other routes (typed word, sized integer type, named masks combined with |).",
    "Trusted: pinned field masks. Rows are parsed from the printer's text output.", "DESIGN.md 4/C17")
add("C18", "exploration", "exhaustive comparison with a reference classifier written from TPM 2.0 Part 2 6.6",
    "All 12 289 codes of the stated finite space are classified by an independent reference and compared with the text form, "
    "the attribute rows and the printed bit rows of the real code.",
    "Trusted: the 30-line reference classifier and the pinned name tables.", "DESIGN.md 4/C18")
add("C20", "exploration", "invariant walk over the live layout tables at the quiescent point after import + equality with the pinned snapshot",
    "Exhaustive over the finite tables: every coherence rule of the statement on every live type and table entry, and a "
    "node-by-node comparison of the walked layout with the pinned snapshot. The walk runs in 6 (thorough 24) fresh interpreters with different string hash seeds; after use (membership probes in three orders, a decode workload, hostile scenes) the allowed sets are probed by membership and the walk is repeated.",
    "Trusted: layout/pinned_layout.json (committed data).", "DESIGN.md 4/C20")

add("C01", "exploration", "boundary trace of the strict decoder compared event-by-event with an executable reference model over a pinned layout snapshot",
    "Complete event lists (path, declared type, value, value class) of the real strict decoder are compared with an independent "
    "reference interpreter on generated encodings of all 232 non-union types, all 117 codes x 2 directions x 12 configurations, "
    "every selector value, and the captured corpus. Held on the executions observed; anchors prove every walker ran. Hostile scenes (aborted, abandoned, still-open decodes) run between the judged decodes, every fifth decode is rooted at another path, every worker has its own string hash seed, and held events are read again later.",
    "Trusted: pinned layout snapshot, the reference's framing rules; generator/reference self-check.", "DESIGN.md 4/C01")
add("C03", "fault_enumeration", "size-fault enumeration on recorded decodes checked against the reference's region model (class, path, limit, counted, offender, events before)",
    "Exhaustive per message over the listed perturbations of every size/count field, plus exhaustive small-alphabet strings for "
    "10 nested size-prefixed types (real and synthetic); every strict outcome is compared in class, details and preceding events.",
    "Trusted: reference region model. Tolerances: simultaneous violations (any region), overrun beyond end of input may be 'depleted'.", "DESIGN.md 4/C03")
add("C04", "fault_enumeration", "value-fault enumeration on recorded decodes checked against the pinned allowed sets (iff, first offender, details, events before)",
    "Every constrained leaf of the base messages is set to boundary, just-outside and far-outside values; acceptance iff in the "
    "pinned set, error details and allowed-set membership probes compared. Also: successful responses decoded with reserved command codes (prefix-of-real-decode and byte-accounting oracle).",
    "Trusted: pinned allowed sets.", "DESIGN.md 4/C04")
add("C05", "fault_enumeration", "truncation at every byte offset and appended suffixes, outcome and command_code attribute checked against the reference's spans and message boundaries",
    "Exhaustive per input over all cut points (incl. the empty input) for structures, commands, responses and streams. The surplus bytes of an error are read twice (before and after formatting it); every fifth decode is rooted at another path.",
    "Trusted: reference spans/boundaries. Tolerances for command_code as listed in DESIGN.md 5.1.", "DESIGN.md 4/C05")
add("C13", "fault_enumeration", "byte-conservation law checked on every recorded strict rejection (emitted + offending + remaining = input)",
    "All strict rejections of the size/value fault enumeration and of the exhaustive small-alphabet strings are checked, including "
    "problems detected on the very last byte (counted in the evidence). Every rejection is repeated with the bytes supplied by another kind of source (generator, iterator, closing iterator, file objects, hex front-end, bytes, bytearray, list) and must account for the bytes in the same way.",
    "Trusted: region end of an overrun taken from the reference (fallback: the error's own figures).", "DESIGN.md 4/C13")

add("C02", "exploration", "byte-conservation law over the recorded event chunks (slice at running offset, pinned width) plus icontract post-conditions on the serialisation leaf functions",
    "Every accepted input of the C01 workloads and value-corrupted variants in warn mode are re-encoded event by event and compared "
    "with the input slices; signed, 64-bit, named-range and enum-backed leaves are counted in the evidence. Collected event lists are "
    "re-encoded again later (after further decodes); hostile scenes run in between. Thorough: the repository's own test suite runs with a "
    "monitor around every decode it makes (look-ahead, round trip, held events).",
    "Trusted: pinned widths. The contract layer is supplementary and reports its evaluation counts.", "DESIGN.md 4/C02")
add("C06", "exploration", "outcome-class monitor at the API boundary under random, mutated, mis-typed and exhaustive small-alphabet inputs, keyed by failure mechanism",
    "Tens of thousands (thorough: millions) of hostile decodes; any escaping exception outside the documented classes is a violation "
    "identified by exception class and innermost tpmstream frame; termination by logical step cap.",
    "Known finding D10 (response encrypt-flag assertion) is listed in known_findings.json by mechanism.", "DESIGN.md 4/C06")
add("C07", "fault_enumeration", "pairwise comparison of the strict-mode and warn-mode traces of identical bytes up to the first problem",
    "All fault classes (size, value, truncation, suffix, small-alphabet, mutation) are decoded in both modes; events before the first "
    "problem and the problem's class and details (captured at observation time) must coincide.",
    "No model needed; cases in which both modes fail with the same internal error are left to C06/C08.", "DESIGN.md 4/C07")

add("C08", "fault_enumeration", "model-free tiling monitor over the warn-mode boundary trace (byte accounting, region ends, surplus) + allowed-abort check + lenient reference for value-only cases; constraint shadow names the failure mechanism",
    "Warn-mode decodes of every fault class (size, nested pairs of size faults with a trailer, value, truncation, suffix, "
    "small-alphabet exhaustive, mutations, random / mis-typed inputs, streams with a malformed message or an abandoned command in "
    "the middle) are checked by rules T1-T7 and M1/M3; each violation is keyed by the first bookkeeping fault seen by the hooked "
    "constraint state. Whole streams are bases of the fault enumeration (faults in any message including the last); every fifth decode is rooted at another path.",
    "Size fields are recognised from the declared type of the parent event. Known finding D10 (assertion on the encryption flag).", "DESIGN.md 4/C08")

add("C09", "exploration", "differential on schedules: stream decode vs per-message decodes (boundaries and pairing from the reference), plus events_to_objs pairing",
    "Generated streams (sessions, encryption, failures, same code back to back, ending after a command) and per-file corpus streams; "
    "the stream's events must equal the concatenation of the individual decodes, each individual decode the reference's events, and objects must pair one per message. Every third stream is decoded under another root path; object conversion is fed with a list, an iterator and the live decoder; warn mode: padded messages (also the last one) against the concatenation of individual warn-mode decodes.",
    "Message boundaries and the command->response pairing come from the reference interpreter.", "DESIGN.md 4/C09")
add("C10", "fault_enumeration", "ordering law over the pull log of a counting byte source (look-ahead distance), prefix stability at every cut point, result equality across source kinds, pull logs of the lazy front-ends",
    "Every cut point of the base inputs (quick: sampled for long inputs), 10 source kinds, hex / swtpm renderings through a counting "
    "character source and several files through logged read() calls. Warn mode is held to the same look-ahead and prefix laws (whole input and cut points).",
    "pcapng is documented non-lazy and excluded from the look-ahead clause.", "DESIGN.md 4/C10")
add("C11", "exploration", "round-trip identities between decoder object, events_to_obj, obj_to_events, re-encoding and the Canonical facade, compared in full",
    "All structure types (incl. empty structured TPM2Bs, every payload-less union arm), all codes x directions x configurations, corpus. The Canonical facade is used lazy and eager, events first and object first, every read repeated; events_to_obj is fed with a list, an iterator and the live decoder; hostile scenes run in between.",
    "Equality is the library's own == plus identity of declared types and value classes.", "DESIGN.md 4/C11")
add("C12", "exploration", "history checker: every completed decode compared with the first decode of the same arguments under sequential, step-wise interleaved and threaded schedules",
    "Pools with encrypted parameter areas of different commands, stand-alone structures (whole / truncated / warn mode), "
    "value-faulted variants and the same stream through the pcapng (Ethernet / IPv4 / raw link layers) and hex front-ends; seeded schedulers over live generators; 8 threads with 1us switch interval and a barrier-synchronised "
    "first-use race; sampled items are also compared with the same decode in a fresh interpreter; distinct schedules counted by hash.",
    "No shared-memory concurrency exists in the code; schedules are interleavings of independent generators.", "DESIGN.md 4/C12")
add("C14", "exploration", "row model computed from recorded events compared line by line with the pretty printer and the events printer",
    "Event streams of well-formed and malformed inputs in both modes; rows, order, byte buffers, bit rows, warnings, indentation "
    "and value text are compared after stripping colour codes and collapsing blanks. A third of the completed decodes are also printed from a list, a tuple and the live decoder (lazy pipeline).",
    "The row of a non-byte list parent may come late; it is mandatory when the list has no elements. Sequences of different response codes / attribute words are printed back to back in one process. TPM_RC bit rows come from attributes() (validated by C18).", "DESIGN.md 4/C14")
add("C15", "exploration", "differential against the binary decode of the carried bytes for noisy container renderings + reference recognisers over exhaustive small-alphabet strings",
    "hex / swtpm-log / pcapng / auto on generated streams with layout noise; all strings to length 5 (6) over 10 symbols for the hex "
    "scanner and to 4 (5) tokens over 14 tokens for the swtpm scanner.",
    "dpkt is trusted for writing and reading captures. Known finding D14 (Auto and hex text not starting with a pair).", "DESIGN.md 4/C15")
add("C19", "exploration", "process-level observer: CLI stdout/stderr/status compared with in-process library output and with the reference's strict classification",
    "convert over every input x output format and type choice (streams, single messages, structures, malformed, stdin, several files), "
    "refusals, `type` listings, `example` blocks re-decoded. Command names are covered systematically (one per first letter + a moving window; thorough all) with near-miss names that must be refused; several files are split at and inside messages, with --in binary and with auto-detection.",
    "Lines compared with colour codes stripped and blanks collapsed.", "DESIGN.md 4/C19")

NOT_YET = "monitor not built yet in this phase; will be claimed once validated on the unchanged tree"


def main():
    props = [json.loads(l)["id"] for l in open(os.path.join(env.VERIF_ROOT, "properties.jsonl"))]
    checks = []
    for pid in props:
        if pid not in CHECKS:
            continue
        cat, tech, text, note, ref = CHECKS[pid]
        checks.append(
            dict(
                property_id=pid,
                quick_cmd=f"{PY} -m vt.check {pid} --tier quick",
                thorough_cmd=f"{PY} -m vt.check {pid} --tier thorough",
                evidence_file=f"/verif/evidence/{pid}.json",
                replay_cmd_template=f"{PY} -m vt.check --replay {{path}}",
                engine="vt",
                level_claimed=dict(category=cat, text=text, design_ref=ref),
                level_note=note,
                technique=tech,
            )
        )
    m = dict(
        version=1,
        setup_cmd=f"{PY} -m vt.setup",
        hooks=dict(
            guard="TPMSTREAM_VERIF",
            enable="no source hooks are needed: monitors wrap module globals and the public API boundary from the harness (DESIGN.md section 1); the guard name is reserved",
            baseline_off_cmd="cd /repo && /venv/bin/python -m pytest -ra -q -p no:cacheprovider --timeout=900 --continue-on-collection-errors",
            source_commits=[],
            add_only=True,
        ),
        engines=[
            dict(name="vt", path="/verif/vt", serves_properties=sorted(CHECKS),
                 kind_free_text="runtime monitoring harness: boundary trace recorder, reference interpreter over a pinned layout snapshot, generators, fault enumeration, sharded workers"),
        ],
        checks=checks,
        not_applicable=[dict(property_id=p, reason=NOT_YET) for p in props if p not in CHECKS],
        notes="Exit status of every check: 0 held, 1 violation (VIOLATION line + replay file), 2 inconclusive. Known findings: /verif/known_findings.json.",
    )
    with open(os.path.join(env.VERIF_ROOT, "MANIFEST.json"), "w") as f:
        json.dump(m, f, indent=1)
        f.write("\n")
    print("MANIFEST.json:", len(checks), "checks,", len(m["not_applicable"]), "not applicable")


if __name__ == "__main__":
    main()
