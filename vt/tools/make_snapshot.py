"""One-off tool (never run by a check): write layout/pinned_layout.json from the live tables.

The result is reviewed by hand and committed.  Known layout defects of the tree are corrected here, so
the pinned data describes the TPM 2.0 layout and not the defect:
  D1  TPMA_LOCALITY.extended is bits 7:5 (0xE0), Part 2 section 8.5
  D16 the response handle area of FirmwareRead is TPMS_RESPONSE_HANDLES_FIRMWARE_READ
"""
import json
import sys

from .. import layout


def main():
    w = layout.walk()
    w["types"]["TPMA_LOCALITY"]["bits"]["extended"] = 0xE0
    cc = str(w["command_codes"]["FirmwareRead"])
    good = "TPMS_RESPONSE_HANDLES_FIRMWARE_READ"
    if w["areas"][cc]["response_handles"] != good:
        w["areas"][cc]["response_handles"] = good
        w["area_types"][good] = {"kind": "struct", "fields": [], "selectors": {}, "params_base": False}
        w["importable_area_names"] = sorted(set(w["importable_area_names"]) | {good})
        # the name clash hid the real parameter layout: take it from the response parameter table itself
        from tpmstream.spec.commands import Response
        from tpmstream.spec.structures.constants import TPM_CC

        t = Response._type_maps["parameters"][TPM_CC.FirmwareRead]
        d = layout.describe(t)
        d["params_base"] = True
        w["area_types"][t.__name__] = d
    w["duplicate_names"] = []
    w["conflicts"] = []
    with open(layout.PINNED_PATH, "w") as f:
        json.dump(w, f, indent=0, sort_keys=True)
        f.write("\n")
    print("written", layout.PINNED_PATH)


if __name__ == "__main__":
    sys.exit(main())
