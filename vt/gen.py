"""Generator of well-formed wire encodings, driven only by the pinned layout snapshot.

``Gen.build(tname)`` returns ``(bytes, intended events)``; the intended events are what the generator
*meant* to encode (path, declared type, value).  The reference interpreter re-derives the events from
the bytes independently; a disagreement between the two is a harness error (self-check), never a
verdict about the code under test.
"""
import random

from . import layout
from . import refmodel as R

SMALL_LIST = (0, 1, 1, 2, 2, 3)
BUF_SIZES = (0, 0, 1, 2, 3, 4, 8, 20, 31, 32, 32, 48, 64)
BIG_BUF = (255, 256, 1024, 4096, 65535)
FAIL_CODES = (0x101, 0x100, 0x120, 0x12F, 0x14D, 0x084, 0x1C4, 0x2C3, 0x98E, 0x902, 0x922, 0x923, 0x500, 0xD21,
              0x9A2, 0x0FFF, 0x80000101, 0x00000580)


class Gen:
    def __init__(self, rng=None, P=None, big=False):
        self.rng = rng or random.Random(0)
        self.P = P or layout.pinned()
        self.T = self.P["types"]
        self.A = self.P["area_types"]
        self.big = big
        self.force = {}  # (struct tname, field) -> value
        self.empty2b = set()  # tpm2b type names forced to size 0
        self.list_len = None  # int -> forced list length for non-byte lists
        self.buf_len = None  # int -> forced byte-buffer length
        self.arms = []  # union arms taken during the last build
        self.max_buf = 65535  # cap on generated buffer lengths (lowered while a structured TPM2B would overflow its size)

    # ---- primitives ------------------------------------------------------------------------
    def desc(self, tname):
        return self.T[tname] if tname in self.T else self.A[tname]

    def pick(self, tname, limit=None):
        d = self.T[tname]
        iv = d["valid"]
        if limit is not None:
            iv = [[lo, min(hi, limit + 1)] for lo, hi in iv if lo <= limit]
        lo, hi = self.rng.choice(iv)
        r = self.rng.random()
        if r < 0.2:
            return lo
        if r < 0.4:
            return hi - 1
        return self.rng.randrange(lo, hi)

    def enc(self, tname, v):
        d = self.T[tname]
        return int(v).to_bytes(d["width"], "big", signed=d["signed"])

    def prim(self, tname, path, v=None):
        if v is None:
            v = self.pick(tname)
        return self.enc(tname, v), [(path, tname, v)]

    # ---- composite ---------------------------------------------------------------------------
    def build(self, tname, path=R.ROOT, selector=None, count=None, enc=False):
        if tname.startswith("list["):
            elem = tname[5:-1]
            out, evs = b"", [(path, tname, None)]
            parent, last = path[:-1], path[-1]
            for i in range(count):
                b, e = self.build(elem, parent + ((last[0], i),))
                out += b
                evs += e
            return out, evs
        d = self.desc(tname)
        k = d["kind"]
        if k == "prim":
            return self.prim(tname, path)
        if k == "tpm2b":
            return self.tpm2b(tname, d, path)
        if k == "union":
            return self.union(tname, d, path, selector)
        return self.struct(tname, d, path, enc)

    def choose_len(self, elem, count_type):
        maxv = max(hi for lo, hi in self.T[count_type]["valid"]) - 1
        if elem in ("BYTE", "UINT8"):
            if self.buf_len is not None:
                n = self.buf_len
            elif self.big and self.rng.random() < 0.02:
                n = self.rng.choice(BIG_BUF)
            else:
                n = self.rng.choice(BUF_SIZES)
        else:
            if self.list_len is not None:
                n = self.list_len
            elif self.rng.random() < 0.05:
                n = 17
            else:
                n = self.rng.choice(SMALL_LIST)
        if elem in ("BYTE", "UINT8"):
            n = min(n, self.max_buf)
        return min(n, maxv)

    def struct(self, tname, d, path, enc=False):
        fl = [list(f) for f in d["fields"]]
        if enc:
            assert d.get("params_base") and fl and fl[0][1].startswith("TPM2B"), tname
            fl[0][1] = "TPM2B_ENCRYPTED_PARAM"
        out, evs = b"", [(path, tname, None)]
        vals = {}
        sels = d.get("selectors") or {}
        for i, (n, ft) in enumerate(fl):
            p = path + (R.seg(n),)
            if ft.startswith("list["):
                cnt = vals[fl[i - 1][0]]
                b, e = self.build(ft, p, count=cnt)
            elif n in sels:
                b, e = self.build(ft, p, selector=vals[sels[n]])
            else:
                kd = self.desc(ft)["kind"]
                if kd == "prim":
                    if (tname, n) in self.force:
                        v = self.force[(tname, n)]
                    elif i + 1 < len(fl) and fl[i + 1][1].startswith("list["):
                        v = self.choose_len(fl[i + 1][1][5:-1], ft)
                    else:
                        v = self.pick(ft)
                    vals[n] = v
                    b, e = self.prim(ft, p, v)
                else:
                    b, e = self.build(ft, p)
            out += b
            evs += e
        return out, evs

    def tpm2b(self, tname, d, path):
        (sn, st), (bn, bt) = d["fields"]
        sp, bp = path + (R.seg(sn),), path + (R.seg(bn),)
        if bt.startswith("list["):
            n = self.choose_len(bt[5:-1], st)
            if tname in self.empty2b:
                n = 0
            body, bev = self.build(bt, bp, count=n)
            size = n
        elif tname in self.empty2b or (self.rng.random() < 0.04 and self.force.get("allow_empty", True)):
            body, bev, size = b"", [(bp, bt, None)], 0
        else:
            maxv = max(hi for lo, hi in self.T[st]["valid"]) - 1
            saved = self.max_buf
            for _attempt in range(8):
                body, bev = self.build(bt, bp)
                if len(body) <= maxv:
                    break
                # the content does not fit the size field: try again with shorter buffers inside
                self.max_buf = max(4, self.max_buf // 16)
            self.max_buf = saved
            size = len(body)
            if size == 0:
                bev = [(bp, bt, None)]  # a structure of zero bytes cannot be told from an absent one
        maxv = max(hi for lo, hi in self.T[st]["valid"]) - 1
        assert size <= maxv, (tname, size)
        sb, sev = self.prim(st, sp, size)
        return sb + body, [(path, tname, None)] + sev + bev

    def union(self, tname, d, path, selector):
        sel = d["select"]
        if str(selector) in sel:
            names = sel[str(selector)]
        elif "*" in sel:
            names = sel["*"]
        else:
            raise ValueError(f"{tname}: selector {selector} selects nothing")
        members = {m[0]: m for m in d["members"]}
        kinds = {(members[n][1], members[n][2]) for n in names}
        if len(kinds) != 1:
            names = [names[-1]]
        mt, ml = members[names[-1]][1], members[names[-1]][2]
        self.arms.append((tname, names[-1]))
        evs = [(path, tname, None)]
        if mt is None:
            return b"", evs
        p = path + ((tuple(names), None),)
        if mt.startswith("list["):
            b, e = self.build(mt, p, count=ml)
        else:
            b, e = self.build(mt, p)
        return b, evs + e

    # ---- messages ----------------------------------------------------------------------------
    def sessions_command(self, path, n, decrypt=False, encrypt=False):
        """authorizationArea list for a command: n sessions.  Returns bytes, events."""
        out, evs = b"", [(path, "list[TPMS_AUTH_COMMAND]", None)]
        parent, last = path[:-1], path[-1]
        # the attribute may stand in one session - or, on the wire, in several (a decoder has no business enforcing the
        # TPM's own rule on a capture): configuration flag_twice, and now and then by chance
        k = 2 if (n >= 2 and (getattr(self, "flag_twice", False) or self.rng.random() < 0.15)) else 1
        dec_at = set(self.rng.sample(range(n), k)) if (decrypt and n) else set()
        enc_at = set(self.rng.sample(range(n), k)) if (encrypt and n) else set()
        for i in range(n):
            a = self.rng.randrange(256) & ~0x60
            if i in dec_at:
                a |= 0x20
            if i in enc_at:
                a |= 0x40
            self.force[("TPMS_AUTH_COMMAND", "sessionAttributes")] = a
            b, e = self.build("TPMS_AUTH_COMMAND", parent + ((last[0], i),))
            out += b
            evs += e
        self.force.pop(("TPMS_AUTH_COMMAND", "sessionAttributes"), None)
        return out, evs

    def sessions_response(self, path, n, encrypt=False):
        out, evs = b"", [(path, "list[TPMS_AUTH_RESPONSE]", None)]
        parent, last = path[:-1], path[-1]
        k = 2 if (n >= 2 and (getattr(self, "flag_twice", False) or self.rng.random() < 0.15)) else 1
        enc_at = set(self.rng.sample(range(n), k)) if (encrypt and n) else set()
        for i in range(n):
            a = self.rng.randrange(256) & ~0x40
            if i in enc_at:
                a |= 0x40
            self.force[("TPMS_AUTH_RESPONSE", "sessionAttributes")] = a
            b, e = self.build("TPMS_AUTH_RESPONSE", parent + ((last[0], i),))
            out += b
            evs += e
        self.force.pop(("TPMS_AUTH_RESPONSE", "sessionAttributes"), None)
        return out, evs

    def can_encrypt(self, area_type):
        d = self.A[area_type]
        return bool(d.get("params_base") and d["fields"] and d["fields"][0][1].startswith("TPM2B"))

    def command(self, cc, sessions=0, decrypt=False, encrypt=False, path=R.ROOT, session_tag=False):
        """Returns (bytes, events, info).  info: cc, enc (response encryption requested)."""
        a = self.P["areas"][str(cc)]
        F = dict(self.P["frames"]["Command"]["fields"])
        if not sessions:
            decrypt = encrypt = False
        # a session may request encryption although the first parameter is not a sized buffer: the area keeps its plain layout
        opaque = bool(decrypt and self.can_encrypt(a["command_params"]))
        tag = 0x8002 if (sessions or session_tag) else 0x8001
        hb, hev = self.build(a["command_handles"], path + (R.seg("handles"),))
        body, bev = hb, hev
        if tag == 0x8002:
            # (an empty session area - authSize 0 - is expressible, too)
            sb, sev = self.sessions_command(path + (R.seg("authorizationArea"),), sessions, decrypt, encrypt)
            ab, aev = self.prim(F["authSize"], path + (R.seg("authSize"),), len(sb))
            body += ab + sb
            bev = bev + aev + sev
        pb, pev = self.build(a["command_params"], path + (R.seg("parameters"),), enc=opaque)
        body += pb
        bev = bev + pev
        total = 10 + len(body)
        head = b"".join(
            (self.enc(F["tag"], tag), self.enc(F["commandSize"], total), self.enc(F["commandCode"], cc))
        )
        evs = [
            (path, "Command", None),
            (path + (R.seg("tag"),), F["tag"], tag),
            (path + (R.seg("commandSize"),), F["commandSize"], total),
            (path + (R.seg("commandCode"),), F["commandCode"], cc),
        ] + bev
        return head + body, evs, dict(cc=cc, enc=bool(encrypt), dec=bool(decrypt), sessions=sessions)

    def response(self, cc, sessions=0, enc=False, rc=0, path=R.ROOT, tag=None, session_tag=False):
        a = self.P["areas"][str(cc)]
        F = dict(self.P["frames"]["Response"]["fields"])
        if rc != 0:
            if tag is None:
                # any structure tag may head a failed response (e.g. RSP_COMMAND for TPM_RC_BAD_TAG); mostly NO_SESSIONS
                tag = 0x8001 if self.rng.random() < 0.7 else self.pick(F["tag"])
            t = tag
            head = self.enc(F["tag"], t) + self.enc(F["responseSize"], 10) + self.enc(F["responseCode"], rc)
            evs = [
                (path, "Response", None),
                (path + (R.seg("tag"),), F["tag"], t),
                (path + (R.seg("responseSize"),), F["responseSize"], 10),
                (path + (R.seg("responseCode"),), F["responseCode"], rc),
            ]
            return head, evs, dict(cc=cc, enc=None, rc=rc)
        if not sessions:
            enc = False
        opaque = bool(enc and self.can_encrypt(a["response_params"]))
        t = 0x8002 if (sessions or session_tag) else 0x8001
        if t == 0x8001 and self.rng.random() < 0.05:
            # every tag other than SESSIONS means "no session area"
            t = self.pick(F["tag"])
            if t == 0x8002:
                t = 0x8001
        hb, hev = self.build(a["response_handles"], path + (R.seg("handles"),))
        pb, pev = self.build(a["response_params"], path + (R.seg("parameters"),), enc=opaque)
        body, bev = hb, hev
        if t == 0x8002:
            sb, sev = self.sessions_response(path + (R.seg("authorizationArea"),), sessions, encrypt=enc)
            psb, psev = self.prim(F["parameterSize"], path + (R.seg("parameterSize"),), len(pb))
            body += psb + pb + sb
            bev = bev + psev + pev + sev
        else:
            body += pb
            bev = bev + pev
        total = 10 + len(body)
        head = self.enc(F["tag"], t) + self.enc(F["responseSize"], total) + self.enc(F["responseCode"], 0)
        evs = [
            (path, "Response", None),
            (path + (R.seg("tag"),), F["tag"], t),
            (path + (R.seg("responseSize"),), F["responseSize"], total),
            (path + (R.seg("responseCode"),), F["responseCode"], 0),
        ] + bev
        return head + body, evs, dict(cc=cc, enc=(True if enc else None), rc=0)

    def pair(self, cc, config=None):
        """A command and a matching response.  config: dict(sessions, decrypt, encrypt, fail, flag_twice)."""
        self.flag_twice = bool((config or {}).get("flag_twice")) if isinstance(config, dict) else False
        c = config or self.random_config()
        cb, cev, ci = self.command(cc, c.get("sessions", 0), c.get("decrypt", False), c.get("encrypt", False), session_tag=c.get("session_tag", False))
        if c.get("fail"):
            rb, rev, ri = self.response(cc, rc=c["fail"])
        else:
            # a successful response to a command with sessions carries sessions
            want_enc = ci["enc"]
            rb, rev, ri = self.response(cc, sessions=c.get("sessions", 0), enc=want_enc, session_tag=c.get("session_tag", False))
        return (cb, cev, ci), (rb, rev, ri)

    def random_config(self):
        r = self.rng
        s = r.choice((0, 0, 1, 1, 2, 3, 3, 5))
        return dict(
            sessions=s,
            session_tag=bool(s == 0 and r.random() < 0.15),
            decrypt=bool(s and r.random() < 0.4),
            encrypt=bool(s and r.random() < 0.4),
            fail=(r.choice(FAIL_CODES) if r.random() < 0.15 else 0),
        )


def ccs(P=None):
    P = P or layout.pinned()
    return sorted(P["command_codes"].values())


def intended_mismatch(intended, ref):
    """Self-check: intended events vs the reference's events derived from the bytes."""
    if ref.outcome.kind != "ok":
        return f"reference rejects generated bytes: {ref.outcome!r}"
    if len(intended) != len(ref.events):
        return f"event count {len(intended)} != {len(ref.events)}"
    for i, ((p, t, v), e) in enumerate(zip(intended, ref.events)):
        if p != e.path or t != e.tname or v != e.value:
            return f"event {i}: intended {(R.pstr(p), t, v)} != reference {e!r}"
    return None
