"""Check driver.

    python -m vt.check C01 --tier quick|thorough      run the monitor of one property
    python -m vt.check --replay replays/C01/<case>.json    re-run one recorded case

Exit status: 0 held on everything observed; 1 violation (``VIOLATION property=<id> replay=<path>``);
2 inconclusive (watchdog fired, deciding monitor never reached, harness self-check failed).
"""
import argparse
import fnmatch
import hashlib
import importlib
import json
import os
import shutil
import subprocess
import sys
import tempfile
import time

from . import env

KNOWN_PATH = os.path.join(env.VERIF_ROOT, "known_findings.json")
EVIDENCE_DIR = os.environ.get("VERIF_EVIDENCE_DIR") or os.path.join(env.VERIF_ROOT, "evidence")
REPLAY_DIR = os.path.join(os.environ["VERIF_EVIDENCE_DIR"], "replays") if os.environ.get("VERIF_EVIDENCE_DIR") else os.path.join(env.VERIF_ROOT, "replays")


def load_known():
    if not os.path.exists(KNOWN_PATH):
        return []
    with open(KNOWN_PATH) as f:
        return json.load(f).get("findings", [])


def match_known(known, prop, v):
    for k in known:
        if k.get("status") != "known" or k.get("property") != prop:
            continue
        m = k.get("match", {})
        if fnmatch.fnmatchcase(v["rule"], m.get("rule", "*")) and fnmatch.fnmatchcase(v["mechanism"], m.get("mechanism", "*")):
            return k
    return None


def run_shards(prop, shards, jobs, default_timeout):
    tmp = tempfile.mkdtemp(prefix=f"vt_{prop}_")
    results = []
    pending = list(enumerate(shards))
    running = []
    failures = []
    try:
        while pending or running:
            while pending and len(running) < jobs:
                i, sh = pending.pop(0)
                sf = os.path.join(tmp, f"shard{i}.json")
                of = os.path.join(tmp, f"out{i}.json")
                with open(sf, "w") as f:
                    json.dump(sh, f)
                p = subprocess.Popen(
                    [env.PYTHON, "-m", "vt.worker", prop, sf, of],
                    cwd=env.VERIF_ROOT, env=env.child_env({"PYTHONHASHSEED": str(sh["hashseed"])} if "hashseed" in sh else None),
                    stdout=subprocess.PIPE, stderr=subprocess.STDOUT,
                )
                running.append((i, sh, p, of, time.time()))
            still = []
            for i, sh, p, of, t0 in running:
                rc = p.poll()
                limit = sh.get("timeout_s", default_timeout)
                if rc is None:
                    if time.time() - t0 > limit:
                        p.kill()
                        p.wait()
                        failures.append(f"shard {sh.get('name')}: watchdog ({limit}s) fired")
                    else:
                        still.append((i, sh, p, of, t0))
                    continue
                out = p.stdout.read().decode(errors="replace")
                if rc != 0 or not os.path.exists(of):
                    failures.append(f"shard {sh.get('name')}: worker exit {rc}: {out[-600:]}")
                    continue
                with open(of) as f:
                    r = json.load(f)
                if r.get("status") != "done":
                    failures.append(f"shard {sh.get('name')}: harness error: {(r.get('error') or '')[-800:]}")
                results.append(r)
            running = still
            if running:
                time.sleep(0.05)
    finally:
        shutil.rmtree(tmp, ignore_errors=True)
    return results, failures


def merge(results):
    m = dict(evaluations=0, sigs=set(), counters={}, sets={}, samples={}, violations=[], viol_total=0,
             viol_by_mech={}, inconclusive=[])
    for r in sorted(results, key=lambda r: str(r.get("shard"))):
        m["evaluations"] += r["evaluations"]
        m["sigs"].update(r["sigs"])
        for k, v in r["counters"].items():
            m["counters"][k] = m["counters"].get(k, 0) + v
        for k, v in r["sets"].items():
            m["sets"].setdefault(k, set()).update(v)
        for k, v in r["samples"].items():
            b = m["samples"].setdefault(k, [])
            for s in v:
                if len(b) < 6:
                    b.append(s)
        m["violations"].extend(r["violations"])
        m["viol_total"] += r["viol_total"]
        for k, v in r["viol_by_mech"].items():
            m["viol_by_mech"][k] = m["viol_by_mech"].get(k, 0) + v
        m["inconclusive"].extend(r["inconclusive"])
    return m


def write_replay(prop, v, tier, seed):
    d = os.path.join(REPLAY_DIR, prop)
    os.makedirs(d, exist_ok=True)
    body = dict(property=prop, tier=tier, seed=seed, **v)
    h = hashlib.sha1(json.dumps(body, sort_keys=True, default=repr).encode()).hexdigest()[:12]
    path = os.path.join(d, f"{h}.json")
    with open(path, "w") as f:
        json.dump(body, f, indent=1, default=repr)
    return path


def run_check(prop, tier, seed, jobs):
    t0 = time.time()
    mod = importlib.import_module(f"vt.monitors.{prop.lower()}")
    shards = mod.plan(tier, seed)
    for sh in shards:
        sh.setdefault("tier", tier)
        sh.setdefault("seed", seed)
    default_timeout = 900 if tier == "quick" else 5400
    results, failures = run_shards(prop, shards, jobs, default_timeout)
    m = merge(results)
    fin = {}
    if hasattr(mod, "finish"):
        fin = mod.finish(m, tier) or {}
    inconclusive = list(failures) + list(m["inconclusive"]) + list(fin.get("inconclusive", []))
    if m["evaluations"] == 0:
        inconclusive.append("no case was evaluated")

    known = load_known()
    new, known_hits = [], {}
    for v in m["violations"]:
        k = match_known(known, prop, v)
        if k is not None:
            known_hits.setdefault(k["id"], [k, 0])
            continue
        new.append(v)
    # count all (not only the recorded subset) per mechanism
    new_total = 0
    for key, n in m["viol_by_mech"].items():
        rule, mech = key.split("|", 1)
        k = match_known(known, prop, dict(rule=rule, mechanism=mech))
        if k is not None:
            known_hits.setdefault(k["id"], [k, 0])
            known_hits[k["id"]][1] += n
        else:
            new_total += n

    for kid, (k, n) in sorted(known_hits.items()):
        print(f"KNOWN-FINDING: property={prop} {k['what']} [{kid}; observed {n}x]")
    replay_paths = []
    seen_mech = set()
    for v in new:
        key = (v["rule"], v["mechanism"])
        if key in seen_mech and len(replay_paths) >= 3:
            continue
        seen_mech.add(key)
        if len(replay_paths) >= 12:
            break
        path = write_replay(prop, v, tier, seed)
        if path in replay_paths:
            continue
        replay_paths.append(path)
        print(f"VIOLATION property={prop} replay={path}")
        print(f"  rule={v['rule']} mechanism={v['mechanism']}")
        print("  " + v["message"].replace("\n", "\n  ")[:1200])

    coverage = dict(
        evaluations=m["evaluations"],
        distinct_nontrivial=len(m["sigs"]),
        rule=getattr(mod, "RULE", ""),
        samples=(m["samples"].get("samples") or [])[:6] or [s for b in m["samples"].values() for s in b][:6],
        counters=dict(sorted(m["counters"].items())),
        sets={k: (sorted(v) if len(v) <= 60 else {"count": len(v), "first": sorted(v)[:40]}) for k, v in sorted(m["sets"].items())},
        set_sizes={k: len(v) for k, v in sorted(m["sets"].items())},
        shards=len(shards),
        violations_by_mechanism=dict(sorted(m["viol_by_mech"].items())),
        known_findings_observed={kid: n for kid, (k, n) in sorted(known_hits.items())},
        inconclusive=inconclusive,
    )
    for k, v in m["samples"].items():
        if k != "samples":
            coverage.setdefault("more_samples", {})[k] = v[:4]
    coverage.update(fin.get("coverage", {}))
    if fin.get("exhaustive"):
        coverage["exhaustive"] = True
    if not coverage["samples"]:
        coverage["samples"] = ["(no sample recorded)"]
    evidence = dict(
        property_id=prop,
        tier=tier,
        seed=seed,
        level=getattr(mod, "LEVEL", "exploration"),
        coverage=coverage,
        assumptions=list(getattr(mod, "ASSUMPTIONS", [])),
        wall_s=round(time.time() - t0, 2),
        violations=new_total,
        tree=env.SRC,
    )
    os.makedirs(EVIDENCE_DIR, exist_ok=True)
    with open(os.path.join(EVIDENCE_DIR, f"{prop}.json"), "w") as f:
        json.dump(evidence, f, indent=1, default=repr)
        f.write("\n")

    status = 0
    if new_total:
        status = 1
    elif inconclusive:
        status = 2
        for why in inconclusive[:10]:
            print(f"INCONCLUSIVE property={prop} {why}")
    print(
        f"{prop} {tier} seed={seed}: evaluations={m['evaluations']} distinct={len(m['sigs'])} "
        f"violations={new_total} known={sum(n for _k, n in known_hits.values())} wall={evidence['wall_s']}s -> "
        + ("HELD" if status == 0 else "VIOLATED" if status == 1 else "INCONCLUSIVE")
    )
    return status


def replay_held_event(r, rec):
    """Best effort: the decode whose event changed is repeated, the hostile scenes and variants of the same input with
    other values are decoded while its events are held, and the held events are read again."""
    from . import history
    from . import trace as TR

    data = bytes.fromhex(r["data"])
    kw = dict(strict=True, cc=None, enc=None)
    kw.update(r.get("args") or {})
    for strict in (kw["strict"], not kw["strict"]):
        TR.run(r["tname"], data, strict=strict, cc=kw["cc"], enc=kw["enc"])
        for i in range(0, len(data)):
            for b in (0xFF, 0x00, data[i] ^ 0x55):
                TR.run(r["tname"], data[:i] + bytes([b]) + data[i + 1 :], strict=False, cc=kw["cc"], enc=kw["enc"])
        history.aborted_scenes()
    TR.recheck_recent()
    for mu in TR.MUTATIONS[:3]:
        rec.violation("event-changed-after-emission", "held-event", f"event #{mu['index']} of {mu['tname']} {mu['data'][:120]} was emitted as {mu['emitted']} and reads {mu['now']} {mu['when']}", r)


def run_replay(path):
    with open(path) as f:
        case = json.load(f)
    prop = case["property"]
    hs = case.get("hashseed")
    if hs is not None and os.environ.get("PYTHONHASHSEED") != str(hs):
        # the case was observed in an interpreter with this string hash seed: replay it in one
        return subprocess.run([env.PYTHON, "-m", "vt.check", "--replay", path], cwd=env.VERIF_ROOT, env=dict(os.environ, PYTHONHASHSEED=str(hs))).returncode
    env.import_tpmstream()
    mod = importlib.import_module(f"vt.monitors.{prop.lower()}")
    from .rec import Rec

    rec = Rec(prop, dict(name="replay"))
    if isinstance(case["replay"], dict) and case["replay"].get("kind") == "held-event":
        replay_held_event(case["replay"], rec)
    else:
        mod.replay(case["replay"], rec)
    if rec.viol_total:
        for v in rec.violations:
            print(f"VIOLATION property={prop} replay={path}")
            print(f"  rule={v['rule']} mechanism={v['mechanism']}\n  {v['message']}")
        return 1
    print(f"replay {path}: no violation reproduced")
    return 0


def main(argv=None):
    ap = argparse.ArgumentParser()
    ap.add_argument("property", nargs="?")
    ap.add_argument("--tier", default=os.environ.get("VERIF_TIER", "quick"), choices=["quick", "thorough"])
    ap.add_argument("--replay")
    ap.add_argument("--jobs", type=int, default=int(os.environ.get("VERIF_JOBS", "16")))
    a = ap.parse_args(argv)
    if a.replay:
        return run_replay(a.replay)
    if not a.property:
        ap.error("property id required")
    try:
        return run_check(a.property.upper(), a.tier, env.seed_default(), a.jobs)
    except Exception:
        # a failure of the driver itself (e.g. the tree under test does not import) is never a verdict
        import traceback

        traceback.print_exc()
        print(f"INCONCLUSIVE property={a.property.upper()} the check driver failed (see traceback)")
        return 2


if __name__ == "__main__":
    sys.exit(main())
