"""Quiescent-point walker over the live layout tables + access to the pinned snapshot.

``walk()`` reflects over every live type after ``import tpmstream.spec`` and returns plain JSON data.
``pinned()`` loads ``layout/pinned_layout.json`` – committed data that no check ever writes.  The
generator and the reference interpreter only ever see the pinned data.
"""
import dataclasses
import json
import os
from typing import Any

from . import env

PINNED_PATH = os.path.join(env.VERIF_ROOT, "layout", "pinned_layout.json")


def tname(t):
    """Name of a declared type as used in the snapshot."""
    if t is None or t is type(None):
        return None
    if t is Any:
        return "Any"
    origin = getattr(t, "__origin__", None)
    if origin is list:
        return f"list[{tname(t.__args__[0])}]"
    if t is list:
        return "list"
    return t.__name__


def _merge(intervals):
    out = []
    for lo, hi in sorted(intervals):
        if hi <= lo:
            continue
        if out and lo <= out[-1][1]:
            out[-1][1] = max(out[-1][1], hi)
        else:
            out.append([lo, hi])
    return out


def _valid_items(vv):
    """Flatten a ValidValues into (intervals, names{value:[[cls,name]]}, ranges[])."""
    from tpmstream.spec.common.values import NamedRange

    intervals, names, ranges = [], {}, []

    def named_range(r):
        intervals.append([r._start, r._end])
        ranges.append(
            {
                "cls": r._type.__name__,
                "basename": r._basename,
                "start": r._start,
                "end": r._end,
                "nibbles": r._index_nibbles,
                "sep": r._sep,
            }
        )

    def member(m):
        v = int(m)
        intervals.append([v, v + 1])
        n = getattr(m, "_name", None)
        if n is not None:
            names.setdefault(str(v), [])
            entry = [type(m).__name__, n]
            if entry not in names[str(v)]:
                names[str(v)].append(entry)

    for v in vv._values:
        if isinstance(v, range):
            if v.step != 1:
                raise ValueError("stepped range in valid values")
            intervals.append([v.start, v.stop])
        elif isinstance(v, NamedRange):
            named_range(v)
        elif isinstance(v, type):
            for m in v:
                if isinstance(m, NamedRange):
                    named_range(m)
                else:
                    member(m)
        else:
            member(v)
    for k in names:
        names[k].sort()
    ranges.sort(key=lambda r: (r["start"], r["end"], r["basename"]))
    return _merge(intervals), names, ranges


def _bits(t):
    """Field masks of an attribute word type, from the class itself (descriptor access on the class)."""
    import inspect

    out = {}
    for name, attr in inspect.getmembers(t):
        if name.startswith("_") or inspect.isroutine(attr):
            continue
        if hasattr(attr, "_name") and hasattr(attr, "_value") and type(attr) is t:
            out[name] = int(attr._value)
    return out


def kind_of(t):
    if hasattr(t, "_int_size"):
        return "prim"
    if t.__name__.startswith("TPM2B"):
        return "tpm2b"
    if hasattr(t, "_selected_by"):
        return "union"
    return "struct"


def describe(t):
    k = kind_of(t)
    d = {"kind": k}
    if k == "prim":
        d["width"] = t._int_size
        d["signed"] = bool(t._signed)
        iv, names, ranges = _valid_items(t._valid_values)
        d["valid"] = iv
        d["names"] = names
        d["ranges"] = ranges
        d["bases"] = [b.__name__ for b in t.__mro__[1:] if not b.__name__.startswith("_") and b is not object]
        if t.__name__.startswith("TPMA_"):
            d["bits"] = _bits(t)
        return d
    fl = [[f.name, tname(f.type)] for f in dataclasses.fields(t)]
    if k == "struct":
        d["fields"] = fl
        d["selectors"] = dict(getattr(t, "_selectors", {}) or {})
        return d
    if k == "tpm2b":
        d["fields"] = fl
        return d
    # union
    ls = getattr(t, "_list_size", {}) or {}
    d["members"] = [[n, ty, ls.get(n)] for n, ty in fl]
    sel = {}
    for member, selv in t._selected_by.items():
        if selv is None:
            key = "*"
        elif isinstance(selv, type):
            key = "type:" + selv.__name__
        else:
            key = str(int(selv))
        sel.setdefault(key, []).append(member)
    d["select"] = sel
    return d


def walk():
    env.import_tpmstream()
    from tpmstream.spec.commands import Command, Response, command_response_types
    from tpmstream.spec.commands.params_common import TPM2B_ENCRYPTED_PARAM
    from tpmstream.spec.common.tpm_rc import (
        TPM_RC_FMT0_ERROR_MAP,
        TPM_RC_FMT0_WARN_MAP,
        TPM_RC_FMT1_MAP,
    )
    from tpmstream.spec.structures import structures_types
    from tpmstream.spec.structures.constants import TPM_CC

    types = {}
    dup = []
    for t in list(structures_types) + [TPM2B_ENCRYPTED_PARAM]:
        if t.__name__ in types:
            dup.append(t.__name__)
        types[t.__name__] = describe(t)
    importable = sorted(
        t.__name__ for t in command_response_types
        if t not in (Command, Response) and t.__name__ != "CommandResponseStream"
    )
    # tables: the classes actually referenced by the four maps (not merely those importable by name)
    ccs = {}
    for m in TPM_CC:
        ccs[m._name] = int(m)
    areas = {}
    area_types = {}
    conflicts = []
    for table_name, table in (
        ("command_handles", Command._type_maps["handles"]),
        ("command_params", Command._type_maps["parameters"]),
        ("response_handles", Response._type_maps["handles"]),
        ("response_params", Response._type_maps["parameters"]),
    ):
        for cc, t in table.items():
            areas.setdefault(str(int(cc)), {})[table_name] = t.__name__
            d = describe(t)
            d["params_base"] = any(b.__name__ == "TPMS_PARAMS" for b in t.__mro__[1:])
            if t.__name__ in area_types and area_types[t.__name__] != d:
                conflicts.append(f"{t.__name__}: two different layouts share this name ({table_name} {int(cc):#x})")
            else:
                area_types[t.__name__] = d
    frames = {
        "Command": {"fields": [[f.name, tname(f.type)] for f in dataclasses.fields(Command)],
                    "selectors": dict(Command._selectors)},
        "Response": {"fields": [[f.name, tname(f.type)] for f in dataclasses.fields(Response)]},
    }
    rc = {
        "fmt0_error": {str(k): v[0] for k, v in dict(TPM_RC_FMT0_ERROR_MAP).items() if v[0] != "None"},
        "fmt0_warning": {str(k): v[0] for k, v in dict(TPM_RC_FMT0_WARN_MAP).items() if v[0] != "None"},
        "fmt1": {str(k): v[0] for k, v in dict(TPM_RC_FMT1_MAP).items() if v[0] != "None"},
    }
    return {
        "types": types,
        "area_types": area_types,
        "importable_area_names": importable,
        "command_codes": ccs,
        "areas": areas,
        "conflicts": sorted(conflicts),
        "frames": frames,
        "rc_tables": rc,
        "duplicate_names": sorted(dup),
    }


_PINNED = None


def pinned():
    global _PINNED
    if _PINNED is None:
        with open(PINNED_PATH) as f:
            _PINNED = json.load(f)
    return _PINNED


def diff(a, b, path=""):
    """Structural diff of two JSON values -> list of 'path: a != b' strings."""
    out = []
    if type(a) is not type(b):
        out.append(f"{path}: {a!r} != {b!r}")
    elif isinstance(a, dict):
        for k in sorted(set(a) | set(b)):
            if k not in a:
                out.append(f"{path}/{k}: missing in live, pinned={_short(b[k])}")
            elif k not in b:
                out.append(f"{path}/{k}: not in pinned, live={_short(a[k])}")
            else:
                out.extend(diff(a[k], b[k], f"{path}/{k}"))
    elif isinstance(a, list) and path.endswith("_names"):
        for x in sorted(set(a) - set(b)):
            out.append(f"{path}: {x!r} only in live")
        for x in sorted(set(b) - set(a)):
            out.append(f"{path}: {x!r} only in pinned")
    elif isinstance(a, list):
        if len(a) != len(b):
            out.append(f"{path}: length {len(a)} != {len(b)}: live={_short(a)} pinned={_short(b)}")
        else:
            for i, (x, y) in enumerate(zip(a, b)):
                out.extend(diff(x, y, f"{path}[{i}]"))
    elif a != b:
        out.append(f"{path}: live={a!r} pinned={b!r}")
    return out


def _short(v):
    s = json.dumps(v)
    return s if len(s) < 160 else s[:157] + "..."
