"""Workloads: well-formed cases (generated from the pinned layout, captured corpus) and fault enumeration."""
import random

from . import corpus, gen, layout
from . import refmodel as R


class Case:
    __slots__ = ("t", "d", "cc", "enc", "origin", "sig", "intended", "fault")

    def __init__(self, t, d, cc=None, enc=None, origin="", sig=None, intended=None, fault=None):
        self.t, self.d, self.cc, self.enc = t, bytes(d), cc, enc
        self.origin, self.sig, self.intended, self.fault = origin, sig, intended, fault

    def replay(self, **extra):
        r = dict(t=self.t, d=self.d.hex(), cc=self.cc, enc=self.enc, origin=self.origin)
        if self.fault:
            r["fault"] = self.fault
        r.update(extra)
        return r

    def ref(self, strict=True):
        return R.decode(self.t, self.d, cc=self.cc, enc=self.enc, strict=strict)

    def short(self):
        h = self.d.hex()
        return dict(t=self.t, cc=self.cc, enc=self.enc, hex=h if len(h) <= 160 else h[:160] + "...", origin=self.origin,
                    **({"fault": self.fault} if self.fault else {}))

    @staticmethod
    def from_replay(r):
        return Case(r["t"], bytes.fromhex(r["d"]), r.get("cc"), r.get("enc"), r.get("origin", "replay"), fault=r.get("fault"))


def non_union_types(P=None):
    P = P or layout.pinned()
    return sorted(n for n, d in P["types"].items() if d["kind"] != "union")


def selector_sweeps(P=None):
    """[(struct tname, selector field, value)] for every struct with selectors and every valid selector value."""
    P = P or layout.pinned()
    out = []
    for tn, d in sorted(P["types"].items()):
        if d["kind"] != "struct" or not d.get("selectors"):
            continue
        ft = dict(map(tuple, d["fields"]))
        for selfield in sorted(set(d["selectors"].values())):
            sd = P["types"][ft[selfield]]
            for lo, hi in sd["valid"]:
                vals = range(lo, hi) if hi - lo <= 64 else (lo, hi - 1)
                for v in vals:
                    out.append((tn, selfield, v))
    return out


def users_of(struct_name, P=None):
    """Type names (non-union) from which struct_name is reachable, incl. itself - used to exercise sweeps nested."""
    return [struct_name]


def struct_cases(types, rng, per_type, sweep=True, big=False):
    """Well-formed encodings of structure types."""
    g = gen.Gen(rng, big=big)
    P = g.P
    for tn in types:
        for k in range(per_type):
            g.arms = []
            g.force = {}
            g.list_len = g.buf_len = None
            g.empty2b = set()
            if k == per_type - 1 and per_type > 2:
                g.list_len = rng.choice((0, 1, 2, 3, 17))
                g.buf_len = rng.choice((0, 1, 2, 31, 32, 64, 255, 1024) if not big else (0, 255, 1024, 4096, 65535))
            b, ev = g.build(tn)
            yield Case(tn, b, origin="gen-struct", intended=ev, sig=(tn, tuple(g.arms), len(ev)))
        d = P["types"][tn]
        if d["kind"] == "tpm2b" and not d["fields"][1][1].startswith("list["):
            g.empty2b = {tn}
            b, ev = g.build(tn)
            g.empty2b = set()
            yield Case(tn, b, origin="gen-empty2b", intended=ev, sig=(tn, "empty"))
    if sweep:
        for tn, selfield, v in selector_sweeps(P):
            if tn not in types:
                continue
            g.arms = []
            g.force = {(tn, selfield): v}
            g.list_len = g.buf_len = None
            b, ev = g.build(tn)
            g.force = {}
            yield Case(tn, b, origin="gen-arm", intended=ev, sig=(tn, selfield, v, tuple(g.arms)))


CONFIGS = (
    dict(sessions=0),
    dict(sessions=1),
    dict(sessions=2),
    dict(sessions=3),
    dict(sessions=1, decrypt=True),
    dict(sessions=2, encrypt=True),
    dict(sessions=2, decrypt=True, encrypt=True),
    dict(sessions=0, fail=0x101),
    dict(sessions=1, fail=0x9A2),
    dict(sessions=0, fail=0x1C4),
    dict(sessions=0, fail=0x500),
    dict(sessions=2, fail=0x98E),
    dict(sessions=0, session_tag=True),
    dict(sessions=5, decrypt=True, encrypt=True),
    dict(sessions=3, decrypt=True, encrypt=True, flag_twice=True),
)


def msg_cases(ccs, rng, per_cfg=1, big=False, configs=CONFIGS):
    """Well-formed commands and responses for every code x configuration.  Yields (command case, response case)."""
    g = gen.Gen(rng, big=big)
    for cc in ccs:
        for ci, cfg in enumerate(configs):
            for _ in range(per_cfg):
                g.arms = []
                g.force = {}
                (cb, cev, cinfo), (rb, rev, rinfo) = g.pair(cc, dict(cfg))
                arms = tuple(g.arms)
                c = Case("Command", cb, origin="gen-msg", intended=cev, sig=("C", cc, ci, cinfo["dec"], cinfo["enc"], arms[: len(arms) // 2 + 1], len(cev)))
                r = Case("Response", rb, cc=cc, enc=rinfo["enc"], origin="gen-msg", intended=rev, sig=("R", cc, ci, rinfo["enc"], rinfo.get("rc"), len(rev)))
                yield c, r


def corpus_cases(start, step):
    """Captured packets; the response is decoded with the command's code and the flag its sessions request."""
    prs = corpus.pairs()
    for f, c, r in prs[start::step]:
        cref = R.decode("Command", c, strict=False)
        m = cref.messages[0]
        yield (
            Case("Command", c, origin=f"corpus:{f}", sig=("corpusC", m.cc, len(c), len(cref.events))),
            Case("Response", r, cc=m.cc, enc=(m.enc or None), origin=f"corpus:{f}", sig=("corpusR", m.cc, len(r))),
        )


def stream_cases(rng, n_streams, max_pairs=8, big=False, exactly=None):
    """Streams of generated pairs.  Yields (Case(CommandResponseStream), [message cases])."""
    g = gen.Gen(rng, big=big)
    allcc = gen.ccs(g.P)
    for _ in range(n_streams):
        n = exactly or rng.randint(1, max_pairs)
        msgs = []
        data = b""
        sig = []
        prev_cc = None
        for i in range(n):
            # the same code back to back with different configurations exposes carried state
            cc = prev_cc if (prev_cc is not None and rng.random() < 0.3) else rng.choice(allcc)
            prev_cc = cc
            g.force = {}
            (cb, cev, cinfo), (rb, rev, rinfo) = g.pair(cc)
            msgs.append(Case("Command", cb, origin="gen-stream", intended=cev))
            msgs.append(Case("Response", rb, cc=cc, enc=rinfo["enc"], origin="gen-stream", intended=rev))
            data += cb + rb
            sig.append((cc, cinfo["sessions"], cinfo["dec"], cinfo["enc"], rinfo.get("rc")))
        if rng.random() < 0.2:
            # a stream may end after a command
            data = data[: len(data) - len(msgs[-1].d)]
            msgs.pop()
        yield Case("CommandResponseStream", data, origin="gen-stream", sig=("S", tuple(sig), len(msgs))), msgs


# ---------------------------------------------------------------------------------------------------
# fault enumeration (on any well-formed case, using the reference's spans and regions)
# ---------------------------------------------------------------------------------------------------


def patch(data, span, value, signed=False):
    w = span[1] - span[0]
    lo, hi = (-(1 << (8 * w - 1)), 1 << (8 * w - 1)) if signed else (0, 1 << (8 * w))
    if not lo <= value < hi:
        return None
    return data[: span[0]] + int(value).to_bytes(w, "big", signed=signed) + data[span[1]:]


def size_fields(ref):
    """[(event index, RefEvent, kind)] of every size field (region owner) and count field in a reference decode."""
    out = []
    reg_paths = {}
    for r in ref.regions:
        if r.path is not None:
            reg_paths[r.path] = r.kind
    for i, e in enumerate(ref.events):
        if e.value is None:
            continue
        if e.path in reg_paths:
            out.append((i, e, reg_paths[e.path]))
        elif i + 1 < len(ref.events) and ref.events[i + 1].tname.startswith("list[") and ref.events[i + 1].value is None \
                and ref.events[i + 1].path[:-1] == e.path[:-1]:
            out.append((i, e, "count"))
    return out


def size_faults(case, ref, ks=(1, 2, 5), limit=None, rng=None):
    fields = size_fields(ref)
    if limit is not None and len(fields) > limit:
        fields = (rng or random).sample(fields, limit)
    for i, e, kind in fields:
        w = e.span[1] - e.span[0]
        cands = [(f"-{k}", e.value - k) for k in ks] + [(f"+{k}", e.value + k) for k in ks] + [("0", 0), ("max", (1 << (8 * w)) - 1)]
        if kind == "count" and w >= 4:
            # a huge count would only run into the end of input after a long walk; keep one moderately large value
            cands = [c for c in cands if c[0] != "max"] + [("+300", e.value + 300)]
        for label, v in cands:
            if v == e.value or v < 0:
                continue
            d = patch(case.d, e.span, v)
            if d is None:
                continue
            yield Case(case.t, d, case.cc, case.enc, origin=case.origin,
                       fault=dict(kind="size", field=R.pstr(e.path), fkind=kind, change=label, old=e.value, new=v),
                       sig=("size", case.t, case.cc, kind, R.pstr(e.path), label))


def constrained(desc):
    w = desc["width"]
    lo, hi = (-(1 << (8 * w - 1)), 1 << (8 * w - 1)) if desc["signed"] else (0, 1 << (8 * w))
    return desc["valid"] != [[lo, hi]]


def value_fault_values(desc, rng, n_random=1):
    """(label, value, expected-in-set) for a constrained leaf."""
    w = desc["width"]
    lo, hi = (-(1 << (8 * w - 1)), 1 << (8 * w - 1)) if desc["signed"] else (0, 1 << (8 * w))
    vals = {}
    for a, b in desc["valid"]:
        vals[a - 1] = "below"
        vals[b] = "above"
        vals[a] = "first"
        vals[b - 1] = "last"
    vals.setdefault(0, "zero")
    vals.setdefault(hi - 1, "ones")
    vals.setdefault(lo if desc["signed"] else (hi >> 1), "signbit")
    for _ in range(n_random):
        vals.setdefault(rng.randrange(lo, hi), "random")
    for v, label in sorted(vals.items()):
        if lo <= v < hi:
            yield label, v


def value_faults(case, ref, rng, P=None, limit=None, second=False):
    P = P or layout.pinned()
    leaves = [(i, e) for i, e in enumerate(ref.events) if e.value is not None and constrained(P["types"][e.tname])]
    if limit is not None and len(leaves) > limit:
        leaves = rng.sample(leaves, limit)
    for i, e in leaves:
        desc = P["types"][e.tname]
        for label, v in value_fault_values(desc, rng):
            if v == e.value:
                continue
            d = patch(case.d, e.span, v, desc["signed"])
            if d is None:
                continue
            yield Case(case.t, d, case.cc, case.enc, origin=case.origin,
                       fault=dict(kind="value", field=R.pstr(e.path), type=e.tname, change=label, old=e.value, new=v),
                       sig=("value", case.t, case.cc, R.pstr(e.path), label))
    if second and len(leaves) >= 2:
        # two bad leaves: the first one in wire order must be reported
        (i1, e1), (i2, e2) = sorted(rng.sample(leaves, 2))
        d1, d2 = P["types"][e1.tname], P["types"][e2.tname]
        bad1 = [v for _l, v in value_fault_values(d1, rng) if not R.in_intervals(v, d1["valid"])]
        bad2 = [v for _l, v in value_fault_values(d2, rng) if not R.in_intervals(v, d2["valid"])]
        if bad1 and bad2:
            d = patch(case.d, e1.span, rng.choice(bad1), d1["signed"])
            d = patch(d, e2.span, rng.choice(bad2), d2["signed"])
            yield Case(case.t, d, case.cc, case.enc, origin=case.origin,
                       fault=dict(kind="value2", fields=[R.pstr(e1.path), R.pstr(e2.path)]),
                       sig=("value2", case.t, case.cc, R.pstr(e1.path), R.pstr(e2.path)))


def twin_value_faults(case, ref, rng, P=None, limit=2):
    """Two leaves of the SAME declared type hold two DIFFERENT values outside the allowed set (objects that stand for
    'unknown value of type T' must not be shared between fields)."""
    P = P or layout.pinned()
    groups = {}
    for e in ref.events:
        if e.value is not None and constrained(P["types"][e.tname]):
            groups.setdefault(e.tname, []).append(e)
    twins = [(tn, es) for tn, es in sorted(groups.items()) if len(es) >= 2]
    rng.shuffle(twins)
    for tn, es in twins[:limit]:
        desc = P["types"][tn]
        bad = sorted({v for _l, v in value_fault_values(desc, rng) if not R.in_intervals(v, desc["valid"])})
        if len(bad) < 2:
            continue
        e1, e2 = rng.sample(es, 2)
        v1, v2 = rng.sample(bad, 2)
        d = patch(case.d, e1.span, v1, desc["signed"])
        d = patch(d, e2.span, v2, desc["signed"]) if d is not None else None
        if d is None:
            continue
        yield Case(case.t, d, case.cc, case.enc, origin=case.origin,
                   fault=dict(kind="value-twins", type=tn, fields=[R.pstr(e1.path), R.pstr(e2.path)], new=[v1, v2]),
                   sig=("value-twins", case.t, case.cc, R.pstr(e1.path), R.pstr(e2.path)))


def cut_faults(case, every=1):
    n = len(case.d)
    for cut in range(0, n, every):
        yield Case(case.t, case.d[:cut], case.cc, case.enc, origin=case.origin, fault=dict(kind="cut", at=cut, of=n),
                   sig=("cut", case.t, case.cc, cut, n))


def suffix_faults(case, rng, long=True):
    # short suffixes, and (for a third of the inputs) ones around and beyond 64 / 256 bytes
    ks = (1, 2, 4) + ((rng.choice((63, 64)), 65, rng.choice((255, 256, 257, 300, 1000))) if long and rng.random() < 0.34 else ())
    # what follows a complete value may start with any byte: 0x00 (falsy), the usual 0x80, 0xff
    for first in (b"\x00", b"\x00\xc4", b"\xff"):
        yield Case(case.t, case.d + first, case.cc, case.enc, origin=case.origin, fault=dict(kind="suffix", bytes=first.hex()),
                   sig=("suffix", case.t, case.cc, "first-" + first.hex(), len(case.d)))
    for k in ks:
        suf = bytes(rng.randrange(256) for _ in range(k))
        yield Case(case.t, case.d + suf, case.cc, case.enc, origin=case.origin, fault=dict(kind="suffix", bytes=suf.hex()),
                   sig=("suffix", case.t, case.cc, k, len(case.d)))


def nested_pair_faults(case, ref, rng, limit=None, ks=(1, 5, 64)):
    """Two cooperating size faults: a region and a region nested inside it both declare more (+k) than they hold."""
    regs = [r for r in ref.regions if r.path is not None and r.max is not None]
    by_path = {e.path: e for e in ref.events if e.value is not None}
    pairs = []
    for outer in regs:
        for inner in regs:
            if inner is outer or not (outer.start <= inner.start and inner.end <= outer.end):
                continue
            if inner.path in by_path and outer.path in by_path:
                pairs.append((outer, inner))
    # pairs whose inner region holds a structure (only those can fall short and be padded) go first
    idx = {e.path: i for i, e in enumerate(ref.events)}

    def structured(reg):
        i = idx.get(reg.path)
        return i is not None and i + 1 < len(ref.events) and not ref.events[i + 1].tname.startswith("list[")

    rng.shuffle(pairs)
    # ... and a faulty *middle* region (the outermost one stays a correct frame of reference) before a faulty message size
    rank = {"param": 0, "auth": 0, "tpm2b": 1, "message": 2}
    pairs.sort(key=lambda p: (not structured(p[1]), rank.get(p[0].kind, 3)))
    if limit is not None:
        pairs = pairs[:limit]
    for outer, inner in pairs:
        eo, ei = by_path[outer.path], by_path[inner.path]
        for ko in ks:
            for ki in ks:
                d = patch(case.d, eo.span, eo.value + ko)
                d = patch(d, ei.span, ei.value + ki) if d is not None else None
                if d is None:
                    continue
                yield Case(case.t, d, case.cc, case.enc, origin=case.origin,
                           fault=dict(kind="size-nested-pair", outer=R.pstr(eo.path), inner=R.pstr(ei.path), change=f"+{ko}/+{ki}"),
                           sig=("size-pair", case.t, case.cc, R.pstr(eo.path), R.pstr(ei.path), ko, ki))


def carried_state_streams(rng, n):
    """Streams built to expose state carried from one pair to the next: a pair whose sessions request parameter
    encryption next to session-less pairs of commands that *could* be encrypted, failed responses in between, the same
    code with and without encryption back to back."""
    g = gen.Gen(rng)
    allcc = gen.ccs(g.P)
    enc_r = [cc for cc in allcc if g.can_encrypt(g.P["areas"][str(cc)]["response_params"])]
    enc_c = [cc for cc in allcc if g.can_encrypt(g.P["areas"][str(cc)]["command_params"])]
    for i in range(n):
        a, b = rng.choice(enc_r), rng.choice(enc_r)
        c = rng.choice(enc_c)
        E = dict(sessions=rng.choice((1, 2)), encrypt=True, decrypt=rng.random() < 0.5)
        plain = dict(sessions=0)
        sess = dict(sessions=1)
        fail = dict(sessions=rng.choice((0, 1)), fail=rng.choice(gen.FAIL_CODES))
        shapes = (
            [(a, E), (b, plain)],
            [(b, plain), (a, E), (b, plain)],
            [(a, E), (rng.choice(allcc), fail), (b, plain)],
            [(a, E), (a, plain), (a, sess), (a, E)],
            [(c, dict(sessions=1, decrypt=True)), (c, plain), (b, sess)],
        )
        shape = shapes[i % len(shapes)]
        msgs, data, sig = [], b"", []
        for cc, cfg in shape:
            g.force = {}
            (cb, cev, cinfo), (rb, rev, rinfo) = g.pair(cc, dict(cfg))
            msgs.append(Case("Command", cb, origin="gen-stream", intended=cev))
            msgs.append(Case("Response", rb, cc=cc, enc=rinfo["enc"], origin="gen-stream", intended=rev))
            data += cb + rb
            sig.append((cc, cinfo["sessions"], cinfo["dec"], cinfo["enc"], rinfo.get("rc")))
        yield Case("CommandResponseStream", data, origin="gen-stream-carried", sig=("SC", tuple(sig))), msgs
