"""Hostile histories: decodes that end badly (or do not end at all) in the same process, run between the
decodes a monitor judges.  Nothing here is judged; the point is that whatever such decodes leave behind (regions that
were never closed, half-consumed coroutines, remembered values) must not change the result of the next decode."""
import random

from . import trace as TR

COUNT = 0
LIVE = []  # half-consumed decode generators kept alive across the judged decodes


def _start(tname, data, strict=True, steps=3, cc=None):
    from tpmstream.io.binary import Binary

    kw = dict(tpm_type=TR.type_by_name(tname), buffer=data, abort_on_error=strict)
    if cc is not None:
        kw["command_code"] = TR.cc_obj(cc)
    g = Binary.marshal(**kw)
    try:
        for _ in range(steps):
            next(g)
    except Exception:
        return None
    return g


def _drain(g):
    try:
        for _ in g:
            pass
    except Exception:
        pass


SCENES = (
    # (type, bytes, strict, command code): decodes that stop inside a sized region
    ("TPM2B_DIGEST", bytes.fromhex("0020aabbccdd"), True, None),  # truncated inside the buffer
    ("TPM2B_PUBLIC", bytes.fromhex("003a0001000b000300720000"), True, None),  # truncated inside a structured TPM2B
    ("TPM2B_PUBLIC", bytes.fromhex("000e7777000b00030072000000060080"), True, None),  # value error inside a TPM2B
    ("TPM2B_SENSITIVE_CREATE", bytes.fromhex("00080100aabb0000"), True, None),  # nested size cannot fit
    ("TPMS_CONTEXT", bytes.fromhex("00000000000000014000000100"), True, None),
    ("TPML_DIGEST", bytes.fromhex("00000003000401020304"), True, None),
    ("Command", bytes.fromhex("80020000003b0000013140000001000000"), True, None),  # truncated in the session area
    ("Response", bytes.fromhex("800200000030000000000000002000100102"), True, 0x17B),
    ("CommandResponseStream", bytes.fromhex("80010000000c0000017b00088001000000"), True, None),
    ("TPM2B_DIGEST", bytes.fromhex("0004aabbccddeeff"), False, None),  # warn mode, surplus
    ("TPM2B_PUBLIC", bytes.fromhex("00ff0001000b000300720000000600800043"), False, None),  # warn mode, too large size
)


def disturb(rng=None, rec=None, n=3):
    """Run n hostile scenes: decode to the bitter end, or abandon the generator part-way (closed or left alive)."""
    global COUNT
    rng = rng or random.Random(COUNT)
    for _ in range(n):
        tname, data, strict, cc = SCENES[(COUNT + rng.randrange(len(SCENES))) % len(SCENES)]
        how = COUNT % 4
        COUNT += 1
        g = _start(tname, data, strict, steps=0, cc=cc)
        if g is None:
            continue
        if how == 0:
            _drain(g)  # ends with an error (strict) or runs through with warnings
        elif how == 1:
            g2 = _start(tname, data, strict, steps=2 + rng.randrange(4), cc=cc)
            if g2 is not None:
                g2.close()  # abandoned and closed
            _drain(g)
        elif how == 2:
            g2 = _start(tname, data[:-1] if len(data) > 3 else data, strict, steps=2 + rng.randrange(3), cc=cc)
            if g2 is not None:
                LIVE.append(g2)  # abandoned and still alive while the next inputs are decoded
            _drain(g)
        else:
            _drain(g)
            while LIVE:
                _drain(LIVE.pop())  # earlier abandoned decodes are resumed and run to their end now
        if rec is not None:
            rec.count("hostile_history_scenes")
    if len(LIVE) > 8:
        del LIVE[:4]


def aborted_scenes(rec=None):
    """Every scene once, run to its end (used by replays, after disturb(): leaves behind whatever aborted decodes leave)."""
    for tname, data, strict, cc in SCENES:
        g = _start(tname, data, strict, steps=0, cc=cc)
        if g is not None:
            _drain(g)
        if rec is not None:
            rec.count("hostile_history_scenes")
