"""Anchor probes with sys.monitoring (Python 3.12): prove that the code the properties are anchored in was
actually executed by the workload.  Anchors are resolved by function name + source pattern, never by line
number.  Hit counts go into the evidence; a resolvable anchor that is never hit makes the run inconclusive."""
import importlib
import inspect
import re
import sys

MARSHAL = "tpmstream.io.binary.marshal"
CONSTR = "tpmstream.common.constraints"

# (id, module, dotted attribute, source regex or None for function entry)
WALKERS = [
    ("process", MARSHAL, "process", None),
    ("process_primitive", MARSHAL, "process_primitive", None),
    ("process_array", MARSHAL, "process_array", None),
    ("process_byte_sized_array", MARSHAL, "process_byte_sized_array", None),
    ("process_tpms", MARSHAL, "process_tpms", None),
    ("process_tpm2b", MARSHAL, "process_tpm2b", None),
    ("process_tpmu", MARSHAL, "process_tpmu", None),
    ("process_command", MARSHAL, "process_command", None),
    ("process_response", MARSHAL, "process_response", None),
]
STREAM = [("process_command_response_stream", MARSHAL, "process_command_response_stream", None)]
SIZE_RAISES = [
    ("anticipated-raise", CONSTR, "SizeConstraint.bytes_parsed", r"raise AnticipatedSizeConstraintExceededError"),
    ("exceeded-raise", CONSTR, "SizeConstraint.bytes_parsed", r"raise SizeConstraintExceededError"),
    ("skip-to-region-end", CONSTR, "SizeConstraint.bytes_parsed", r"yield from consume_bytes"),
    ("subceeded-error", CONSTR, "SizeConstraint.assert_done", r"SizeConstraintSubceededError\(self\)"),
    ("set_constraint", CONSTR, "SizeConstraint.set_constraint", None),
]
VALUE_RAISE = [
    ("value-error", MARSHAL, "process_primitive", r"ValueConstraintViolatedError\("),
    ("unknown-command-code", MARSHAL, "process_command", r"raise ValueConstraintViolatedError"),
]
PUMP = [
    ("pump-depleted", MARSHAL, "marshal", r"InputStreamBytesDepletedError\("),
    ("pump-superfluous", MARSHAL, "marshal", r"InputStreamSuperfluousBytesError\("),
    ("pump-lookahead", MARSHAL, "marshal", r"byte = next\(buffer_iter\)"),
]
WARN_RECOVERY = [
    ("recover-byte-array", MARSHAL, "process_byte_sized_array", r"yield WarningEvent"),
    ("recover-tpm2b", MARSHAL, "process_tpm2b", r"yield WarningEvent"),
    ("recover-command", MARSHAL, "process_command", r"yield WarningEvent"),
    ("recover-response", MARSHAL, "process_response", r"yield WarningEvent"),
    ("padding", CONSTR, "SizeConstraint.assert_done", r"yield from consume_bytes"),
    ("anticipated-warning", CONSTR, "SizeConstraint.set_constraint", r"yield WarningEvent"),
    ("value-warning", MARSHAL, "process_primitive", r"yield WarningEvent"),
]


def _resolve(module, dotted):
    obj = importlib.import_module(module)
    for part in dotted.split("."):
        obj = getattr(obj, part)
    for _ in range(6):
        if hasattr(obj, "__func__"):
            obj = obj.__func__
        elif hasattr(obj, "__wrapped__"):
            obj = obj.__wrapped__
        else:
            break
    return obj.__code__


def _lines(code, pattern):
    src, first = inspect.getsourcelines(code)
    rx = re.compile(pattern)
    return {first + i for i, line in enumerate(src) if rx.search(line)}


class Anchors:
    TOOL = 4

    def __init__(self, anchors, rec, enabled=True):
        self.anchors = anchors
        self.rec = rec
        self.hits = {}
        self.unresolved = []
        self.enabled = enabled and hasattr(sys, "monitoring")
        self.by_code_line = {}
        self.by_code_start = {}

    def __enter__(self):
        if not self.enabled:
            return self
        mon = sys.monitoring
        try:
            mon.use_tool_id(self.TOOL, "vt-anchors")
        except ValueError:
            self.enabled = False
            return self
        E = mon.events
        per_code = {}
        for aid, module, dotted, pattern in self.anchors:
            try:
                code = _resolve(module, dotted)
                if pattern is None:
                    self.by_code_start.setdefault(code, []).append(aid)
                    per_code[code] = per_code.get(code, 0) | E.PY_START
                else:
                    lines = _lines(code, pattern)
                    if not lines:
                        raise LookupError(pattern)
                    for ln in lines:
                        self.by_code_line.setdefault((code, ln), []).append(aid)
                    per_code[code] = per_code.get(code, 0) | E.LINE
            except Exception as e:
                self.unresolved.append(f"{aid} ({type(e).__name__})")
                continue
            self.hits.setdefault(aid, 0)

        def on_start(code, offset):
            for aid in self.by_code_start.get(code, ()):
                self.hits[aid] += 1
            return None

        def on_line(code, line):
            ids = self.by_code_line.get((code, line))
            if ids is None:
                return mon.DISABLE
            for aid in ids:
                self.hits[aid] += 1
            return None

        mon.register_callback(self.TOOL, E.PY_START, on_start)
        mon.register_callback(self.TOOL, E.LINE, on_line)
        for code, ev in per_code.items():
            mon.set_local_events(self.TOOL, code, ev)
        self._codes = list(per_code)
        return self

    def __exit__(self, *exc):
        if self.enabled:
            mon = sys.monitoring
            for code in self._codes:
                mon.set_local_events(self.TOOL, code, 0)
            mon.register_callback(self.TOOL, mon.events.PY_START, None)
            mon.register_callback(self.TOOL, mon.events.LINE, None)
            mon.free_tool_id(self.TOOL)
        for aid, n in self.hits.items():
            self.rec.count(f"anchor:{aid}", n)
        for u in self.unresolved:
            self.rec.add("anchors_unresolved", u)
        return False


def missing(m, anchors):
    """Anchors that were resolvable in at least one shard but never hit in any."""
    out = []
    unresolved = {u.split(" ")[0] for u in m["sets"].get("anchors_unresolved", ())}
    for aid, *_ in anchors:
        if aid in unresolved:
            continue
        if not m["counters"].get(f"anchor:{aid}"):
            out.append(f"anchor {aid} was never executed")
    return out
