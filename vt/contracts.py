"""Runtime contracts (icontract) on pure leaf functions of the code under test, applied from the harness.

Only pure, non-generator leaf functions are decorated (a contract on a generator function would fire when the
generator object is created, not when its body has run).  Named condition functions and an explicit ``error=``
are used; evaluations are counted, and zero evaluations makes the contract layer inconclusive."""
from . import env

env.setup_paths()

try:
    import icontract
except Exception:  # pragma: no cover - the deciding monitors do not depend on the contract layer
    icontract = None

COUNTS = {"int_to_bytes": 0, "event_to_bytes": 0, "is_valid": 0}
_installed = False


class ContractBroken(AssertionError):
    pass


def _int_width_ok(self, size, result):
    COUNTS["int_to_bytes"] += 1
    return isinstance(result, bytes) and len(result) == (self._int_size if size is None else size)


def _event_bytes_ok(event, result):
    COUNTS["event_to_bytes"] += 1
    from tpmstream.common.event import MarshalEvent

    if not isinstance(event, MarshalEvent) or event.value is ...:
        return result == b""
    return isinstance(result, bytes) and len(result) == event.type._int_size


def _is_valid_bool(result):
    COUNTS["is_valid"] += 1
    return result is True or result is False


def install():
    """Decorate the leaf functions in place.  Returns True when the contracts are active."""
    global _installed
    if icontract is None:
        return False
    if _installed:
        return True
    import importlib

    U = importlib.import_module("tpmstream.io.binary.unmarshal")
    from tpmstream.spec.common import base_type as B

    B._INT.to_bytes = icontract.ensure(_int_width_ok, error=lambda self, size, result: ContractBroken(
        f"_INT.to_bytes: {type(self).__name__}({int(self)}) -> {result!r} (size={size})"))(B._INT.to_bytes)
    B._INT.is_valid = icontract.ensure(_is_valid_bool, error=lambda result: ContractBroken(f"is_valid returned {result!r}"))(B._INT.is_valid)
    U.to_bytes = icontract.ensure(_event_bytes_ok, error=lambda event, result: ContractBroken(
        f"to_bytes({event}) -> {result!r}"))(U.to_bytes)
    _installed = True
    return True
