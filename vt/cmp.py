"""Oracles that compare a recorded trace of the real decoder with the reference model."""
from . import refmodel as R
from .trace import pstr


def ev_mismatch(ref_events, mevents, upto=None):
    """Compare complete lists (no zip truncation).  Returns None or a dict describing the first mismatch."""
    n = len(ref_events) if upto is None else upto
    for i in range(max(n, len(mevents))):
        if i >= n:
            return dict(index=i, what="extra event from decoder", got=repr(mevents[i]), expected=None)
        if i >= len(mevents):
            return dict(index=i, what="missing event", got=None, expected=repr(ref_events[i]))
        why = one_event(ref_events[i], mevents[i])
        if why:
            return dict(index=i, what=why, got=repr(mevents[i]), expected=repr(ref_events[i]))
    return None


def one_event(re_, ev):
    if not R.path_matches(re_.path, ev.path):
        return "path"
    if re_.tname != ev.tname:
        return "declared type"
    if re_.value != ev.value:
        return "value"
    if re_.value is not None and ev.vclass != re_.tname:
        return "value class"
    return None


def prefix_mismatch(ref_events, mevents):
    """mevents must be a prefix of ref_events."""
    if len(mevents) > len(ref_events):
        return dict(index=len(ref_events), what="extra event from decoder", got=repr(mevents[len(ref_events)]), expected=None)
    for i, ev in enumerate(mevents):
        why = one_event(ref_events[i], ev)
        if why:
            return dict(index=i, what=why, got=repr(ev), expected=repr(ref_events[i]))
    return None


def norm_outcome(t):
    """Outcome of a real strict decode as a comparable tuple (paths as tuples)."""
    o = t.outcome
    if o[0] in ("ok", "capped"):
        return o
    if o[0] == "depleted":
        return ("depleted",)
    if o[0] == "superfluous":
        return ("superfluous", o[1])
    if o[0] == "internal":
        return ("internal", o[1])
    e = o[1]
    c = e["cls"]
    if c == "ValueConstraintViolatedError":
        return ("value", e.get("cpath"), e.get("tname"), e.get("value"))
    if c == "SizeConstraintExceededError":
        return ("exceeded", e.get("cpath"), e.get("max"), e.get("already"), e.get("vpath"), e.get("by"))
    if c == "SizeConstraintSubceededError":
        return ("subceeded", e.get("cpath"), e.get("max"), e.get("already"))
    if c == "AnticipatedSizeConstraintExceededError":
        return ("anticipated", e.get("cpath"), e.get("max"), e.get("already"), e.get("vpath"), e.get("vvalue"), e.get("by"))
    return ("constraint-other", c)


def outcome_mismatch(ref, t):
    """Compare the reference's first problem with the strict decoder's outcome.

    Returns None when they agree, else a short description.  Implements the tolerances fixed in
    DESIGN.md section 5.1."""
    p = ref.outcome
    got = norm_outcome(t)
    k = p.kind
    if k == "ok":
        return None if got == ("ok",) else f"expected acceptance, got {show(got)}"
    if k == "depleted":
        return None if got == ("depleted",) else f"expected depleted, got {show(got)}"
    if k == "superfluous":
        return None if got == ("superfluous", p.kw["rest"]) else f"expected superfluous {p.kw['rest'].hex()}, got {show(got)}"
    if k in ("value", "unknown_cc"):
        if got[0] != "value":
            return f"expected value error at {R.pstr(p.kw['path'])}, got {show(got)}"
        if not R.path_matches(p.kw["path"], got[1]):
            return f"value error path {pstr(got[1])} != {R.pstr(p.kw['path'])}"
        if k == "value" and got[2] != p.kw["tname"]:
            return f"value error type {got[2]} != {p.kw['tname']}"
        if k == "unknown_cc" and got[2] != "TPM_CC":
            return f"value error type {got[2]} != TPM_CC"
        if got[3] != p.kw["value"]:
            return f"value error value {got[3]} != {p.kw['value']}"
        return None
    if k == "exceeded":
        alts = p.kw["alts"]
        if got == ("depleted",):
            # skipping to the region end ran out of input: legitimate iff some violated region ends beyond the input
            if any(a["region_end"] > len(ref.d) for a in alts):
                return None
            return "expected exceeded (region ends inside the input), got depleted"
        if got[0] != "exceeded":
            return f"expected exceeded {R.pstr(alts[0]['cpath'])}, got {show(got)}"
        for a in alts:
            if (R.path_matches(a["cpath"], got[1]) and a["max"] == got[2] and a["already"] == got[3]
                    and R.path_matches(a["vpath"], got[4]) and a["by"] == got[5]):
                return None
        return f"exceeded details differ: got {show(got)} expected one of {[(R.pstr(a['cpath']), a['max'], a['already'], R.pstr(a['vpath']), a['by']) for a in alts]}"
    if k == "subceeded":
        if got[0] != "subceeded":
            return f"expected subceeded {R.pstr(p.kw['cpath'])}, got {show(got)}"
        if R.path_matches(p.kw["cpath"], got[1]) and p.kw["max"] == got[2] and p.kw["already"] == got[3]:
            return None
        return f"subceeded details differ: got {show(got)} expected {(R.pstr(p.kw['cpath']), p.kw['max'], p.kw['already'])}"
    if k == "anticipated":
        alts = p.kw["alts"]
        if got[0] != "anticipated":
            return f"expected anticipated {R.pstr(alts[0]['cpath'])}, got {show(got)}"
        for a in alts:
            if (R.path_matches(a["cpath"], got[1]) and a["max"] == got[2] and a["already"] == got[3]
                    and R.path_matches(a["vpath"], got[4]) and a["value"] == got[5] and a["by"] == got[6]):
                return None
        return f"anticipated details differ: got {show(got)}"
    return f"reference outcome {k} has no strict expectation"


def show(got):
    out = []
    for x in got:
        if isinstance(x, tuple) and x and isinstance(x[0], tuple):
            out.append(pstr(x))
        elif isinstance(x, bytes):
            out.append(x.hex())
        else:
            out.append(x)
    return tuple(out)


def events_before_problem(ref):
    """Number of reference events that precede the first problem (all events recorded so far)."""
    return len(ref.events)
