"""Model-free tiling monitor for warn-mode traces (C08 M1/M2) and the constraint shadow (M4).

The monitor keeps one number, ``pos`` - the input position up to which every byte is accounted for - and
updates it from the recorded events only:

  T1  each primitive event's bytes are input[pos:pos+w]; pos += w
  T2  a size field opens a region (which field is a size field is decided from the declared type of the
      parent event, never from the field name)
  T3  an Exceeded / Subceeded warning names an open region with the right limit
  T4  after such a warning pos := max(pos, min(R.end, ends of the open regions enclosing R));
      regions opened inside R are abandoned
  T5  at the end every byte is accounted: a Superfluous warning lists exactly input[pos:]; a Depleted
      warning is present iff a field or a declared region end lies beyond the input; else pos == len
  T6  at every field event pulls is pos+1 or len(input)
  T7  no field is shown that crosses the declared end of an open region unless that overrun was reported
"""
import importlib

from . import trace as TR

SIZE_OWNERS = {"authSize": "authorizationArea", "parameterSize": "parameters"}


class Region:
    __slots__ = ("path", "start", "max", "owner", "byname", "reported", "abandoned", "kind")

    def __init__(self, path, start, max, owner, kind, byname=False):
        self.path, self.start, self.max, self.owner, self.kind, self.byname = path, start, max, owner, kind, byname
        self.reported = False
        self.abandoned = False

    @property
    def end(self):
        return self.start + self.max


def under(path, owner, byname=False):
    if len(path) < len(owner):
        return False
    for (n, i), (on, oi) in zip(path, owner):
        if n != on:
            return False
        if not byname and i != oi:
            return False
    return True


class Tiling:
    def __init__(self, data):
        self.data = bytes(data)
        self.pos = 0
        self.regions = []
        self.ptypes = {}
        self.msg_start = 0
        self.viol = []  # (rule, message)
        self.diag = []
        self.depleted = False
        self.superfluous = False
        self.pending_enclosing = None  # region whose warning must come next (T4b)
        self.beyond = False  # some field / region end lies beyond the input
        self.stats = dict(regions=0, reported=0, abandoned=0, skipped=0, padded=0)

    def finish_regions(self, path):
        keep = []
        for r in self.regions:
            if r.kind == "message":
                fin = path is None or len(path) == 1
            else:
                fin = path is None or not under(path, r.owner, r.byname)
            if fin:
                if not r.reported and not r.abandoned and self.pos != r.end:
                    self.diag.append(f"dT4 region {TR.pstr(r.path)} (max={r.max}, start={r.start}) finished at pos={self.pos} without a report")
            else:
                keep.append(r)
        self.regions = keep

    def on_event(self, ev):
        if ev.kind == "M":
            self.on_marshal(ev)
        else:
            self.on_warning(ev)

    def on_marshal(self, ev):
        self.finish_regions(ev.path)
        if ev.value is None and len(ev.path) == 1:
            # a new message: paths repeat from here on
            self.ptypes = {}
            self.msg_start = self.pos
        self.ptypes[ev.path] = ev.tname
        if ev.value is None:
            # a structure seen again at the same path (list element paths are unique, so this is a new instance)
            self.ptypes.pop(("#children", ev.path), None)
            return
        b = ev.chunk if isinstance(ev.chunk, bytes) else b""
        w = len(b)
        for r in self.regions:
            # T7: a field that crosses the declared end of an open region is a problem that must have been reported
            if not r.reported and not r.abandoned and self.pos + w > r.end and (r.kind == "message" or under(ev.path, r.owner, r.byname)):
                self.viol.append(("T7", f"field {ev!r} (input[{self.pos}:{self.pos + w}]) is shown although it crosses the declared end {r.end} of {TR.pstr(r.path)} and no overrun was reported"))
                r.reported = True
        if self.data[self.pos : self.pos + w] != b:
            self.viol.append(("T1", f"field {ev!r} carries bytes {b.hex()} but the next unaccounted input bytes are input[{self.pos}:{self.pos + w}] = {self.data[self.pos:self.pos + w].hex()}"))
        self.pos += w
        name = ev.path[-1][0]
        parent = self.ptypes.get(ev.path[:-1])
        if len(ev.path) == 2 and ((parent == "Command" and name == "commandSize") or (parent == "Response" and name == "responseSize")):
            self.open(Region(ev.path, self.msg_start, ev.value, (), "message"))
        elif len(ev.path) == 2 and ((parent == "Command" and name == "authSize") or (parent == "Response" and name == "parameterSize")):
            self.open(Region(ev.path, self.pos, ev.value, ev.path[:-1] + ((SIZE_OWNERS[name], None),), "area", byname=True))
        elif parent is not None and parent.startswith("TPM2B") and self.first_field(ev):
            self.open(Region(ev.path, self.pos, ev.value, ev.path[:-1], "tpm2b"))
        if ev.pulls is not None and ev.pulls not in (self.pos + 1, len(self.data)):
            self.viol.append(("T6", f"at {ev!r}: {ev.pulls} bytes pulled while {self.pos} are accounted for"))

    def first_field(self, ev):
        # the size field is the first child of a TPM2B parent: no sibling event was seen under this parent yet
        key = ("#children", ev.path[:-1])
        n = self.ptypes.get(key, 0)
        self.ptypes[key] = n + 1
        return n == 0

    def open(self, r):
        self.regions.append(r)
        self.stats["regions"] += 1
        if r.end > len(self.data):
            self.beyond = True

    def on_warning(self, ev):
        e = ev.err
        cls = e["cls"]
        if cls in ("SizeConstraintExceededError", "SizeConstraintSubceededError"):
            cands = [r for r in self.regions if r.path == e.get("cpath")]
            if not cands:
                self.viol.append(("T3", f"{cls} names {TR.pstr(e.get('cpath'))} which is not an open region: {e['str']}"))
                return
            r = cands[-1]
            if e.get("max") != r.max:
                self.viol.append(("T3", f"{cls} quotes limit {e.get('max')} for {TR.pstr(r.path)}, the size field says {r.max}"))
            if e.get("already") != self.pos - r.start and not r.reported:
                self.diag.append(f"dT3 {cls} for {TR.pstr(r.path)} quotes {e.get('already')} bytes counted, {self.pos - r.start} were accounted for")
            r.reported = True
            self.stats["reported"] += 1
            idx = self.regions.index(r)
            if cls == "SizeConstraintExceededError":
                for q in self.regions[idx + 1 :]:
                    if not q.abandoned:
                        q.abandoned = True
                        self.stats["abandoned"] += 1
            encl = [q for q in self.regions[:idx] if not q.abandoned and not q.reported]
            target = r.end
            cut_by = None
            for q in encl:
                if q.end < target:
                    target, cut_by = q.end, q
            if target > len(self.data):
                self.beyond = True
                target = len(self.data)
            if target > self.pos:
                self.stats["skipped" if cls == "SizeConstraintExceededError" else "padded"] += target - self.pos
                self.pos = target
        elif cls == "InputStreamSuperfluousBytesError":
            self.superfluous = True
            rem = e.get("rem")
            if rem != self.data[self.pos :]:
                self.viol.append(("T5", f"surplus reported as {rem.hex() if isinstance(rem, bytes) else rem!r} but the unaccounted input is input[{self.pos}:] = {self.data[self.pos:].hex()[:80]}"))
            self.pos = len(self.data)
        elif cls == "InputStreamBytesDepletedError":
            self.depleted = True

    def finish(self, ended_normally):
        if not ended_normally:
            return
        if self.depleted:
            # legitimate iff some field or declared region end lies beyond the input
            return
        if self.superfluous:
            return
        self.finish_regions(None)
        if self.pos != len(self.data):
            self.viol.append(("T5", f"decoding ended with {len(self.data) - self.pos} input bytes neither shown, skipped nor listed as surplus (pos={self.pos}, len={len(self.data)})"))


# ---------------------------------------------------------------------------------------------------
# M4: constraint shadow (hooked state) - localises the first counter that drifts
# ---------------------------------------------------------------------------------------------------


class Shadow:
    """Wraps the decoder's size bookkeeping from the harness (hooked state) and names the first bookkeeping fault
    of a decode - the *mechanism* of whatever the boundary monitors see afterwards:

      overcount / undercount   a live counter differs from the bytes really sent into the coroutine since its
                               region started, at a moment the decoder reads it to decide
      abandoned-consulted      a constraint opened inside a region that was skipped is still consulted
      done-after-exceeded      the end check runs on a constraint whose overrun was already reported
    """

    def __init__(self):
        self.sent = 0
        self.start = {}
        self.objs = {}
        self.order = {}
        self.exceeded = set()
        self.abandoned = set()
        self.first_drift = None
        self.drifts = 0
        self.comparisons = 0
        self.installed = False

    def flag(self, kind, where, c, d=0):
        self.drifts += 1
        if self.first_drift is None:
            self.first_drift = (kind, where, str(c.constraint_path), d)

    def install(self):
        M = importlib.import_module("tpmstream.io.binary.marshal")
        C = importlib.import_module("tpmstream.common.constraints")
        E = importlib.import_module("tpmstream.common.error")
        self.M, self.C = M, C
        self.orig = dict(process=M.process, bytes_parsed=C.SizeConstraint.bytes_parsed, assert_done=C.SizeConstraint.assert_done,
                         set_constraint=C.SizeConstraint.set_constraint)
        shadow = self
        orig = self.orig

        class Proxy:
            def __init__(self, gen):
                self.gen = gen

            def send(self, v):
                if v is not None:
                    shadow.sent += 1
                return self.gen.send(v)

            def __next__(self):
                return self.gen.send(None)

            def __iter__(self):
                return self

            def throw(self, *a):
                return self.gen.throw(*a)

            def close(self):
                return self.gen.close()

        def process(*a, **kw):
            # only the outermost call (made by the byte pump) is proxied
            import sys

            caller = sys._getframe(1).f_code.co_name
            g = orig["process"](*a, **kw)
            if caller == "marshal":
                shadow.reset()
                return Proxy(g)
            return g

        def set_constraint(self_, *a, **kw):
            shadow.start[id(self_)] = shadow.sent - self_.size_already
            shadow.objs[id(self_)] = self_
            shadow.order[id(self_)] = len(shadow.order)
            return orig["set_constraint"](self_, *a, **kw)

        def check(c, where):
            if id(c) in shadow.abandoned and not c.is_obsolete:
                shadow.flag("abandoned-consulted", where, c)
            st = shadow.start.get(id(c))
            if st is None or c.size_max is None or c.is_obsolete:
                return
            shadow.comparisons += 1
            d = c.size_already - (shadow.sent - st)
            if d:
                shadow.flag("overcount" if d > 0 else "undercount", where, c, d)

        def watch(c, g):
            try:
                result = yield from g
            except E.SizeConstraintExceededError:
                shadow.exceeded.add(id(c))
                mine = shadow.order.get(id(c))
                if mine is not None:
                    for cid, o in shadow.order.items():
                        if o > mine and not shadow.objs[cid].is_obsolete:
                            shadow.abandoned.add(cid)
                raise
            return result

        def bytes_parsed(self_, path, size, anticipate_only=False):
            g = orig["bytes_parsed"](self_, path, size, anticipate_only=anticipate_only)
            if anticipate_only:
                return g
            check(self_, "bytes_parsed")
            return watch(self_, g)

        def assert_done(self_, *a, **kw):
            if id(self_) in shadow.exceeded:
                shadow.flag("done-after-exceeded", "assert_done", self_)
            check(self_, "assert_done")
            return orig["assert_done"](self_, *a, **kw)

        M.process = process
        C.SizeConstraint.set_constraint = set_constraint
        C.SizeConstraint.bytes_parsed = bytes_parsed
        C.SizeConstraint.assert_done = assert_done
        self.installed = True

    def reset(self):
        self.first_drift = None
        self.sent = 0
        self.start = {}
        self.objs = {}
        self.order = {}
        self.exceeded = set()
        self.abandoned = set()

    def uninstall(self):
        if not self.installed:
            return
        self.M.process = self.orig["process"]
        self.C.SizeConstraint.set_constraint = self.orig["set_constraint"]
        self.C.SizeConstraint.bytes_parsed = self.orig["bytes_parsed"]
        self.C.SizeConstraint.assert_done = self.orig["assert_done"]
        self.installed = False
